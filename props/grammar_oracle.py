"""Independent readers of the five specification grammars (no lark, no teaal code) and a token-mutation generator of
near-miss strings; used by the bounded check of C17."""
import re

W = r"[ \t]*"
NAME = r"[A-Za-z_][A-Za-z_0-9]*"
# lark common.NUMBER = FLOAT | INT ; FLOAT = INT _EXP | DECIMAL _EXP? ; DECIMAL = INT "." INT? | "." INT
NUMBER = r"(?:[0-9]+\.[0-9]*(?:[eE][+-]?[0-9]+)?|\.[0-9]+(?:[eE][+-]?[0-9]+)?|[0-9]+[eE][+-]?[0-9]+|[0-9]+)"
REJECT = ("reject",)


def _full(pat, s):
    return re.fullmatch(W + pat + W, s)


def read_directive(s):
    for kind in ("nway_shape", "uniform_shape"):
        for szk, szp in (("int_sz", NUMBER), ("str_sz", NAME)):
            m = _full(kind + r"\(" + W + "(" + szp + ")" + W + r"\)", s)
            if m:
                return ("ok", (kind, None, szk, m.group(1)))
    out = []
    for szk, szp in (("int_sz", NUMBER), ("str_sz", NAME)):
        for m in [_full(r"uniform_occupancy\(" + W + "(" + NAME + ")" + W + r"\." + W + "(" + szp + ")" + W + r"\)", s)]:
            if m:
                out.append(("uniform_occupancy", m.group(1), szk, m.group(2)))
    if len(out) == 1:
        return ("ok", out[0])
    if len(out) > 1:
        return ("unsure",)
    if _full(r"flatten\(" + W + r"\)", s):
        return ("ok", ("flatten", None, None, None))
    m = _full(r"follow\(" + W + "(" + NAME + ")" + W + r"\)", s)
    if m:
        return ("ok", ("follow", m.group(1), None, None))
    return REJECT


def real_directive(s):
    from teaal.parse.partitioning import PartitioningParser
    try:
        t = PartitioningParser.parse_partitioning(s)
    except Exception:      # noqa
        return REJECT
    leader = [str(c.children[0]) for c in t.find_data("leader")]
    szs = [(c.data, str(c.children[0])) for c in list(t.find_data("int_sz")) + list(t.find_data("str_sz"))]
    if len(leader) > 1 or len(szs) > 1:
        return ("ok", ("malformed tree", str(t)))
    return ("ok", (str(t.data), leader[0] if leader else None, szs[0][0] if szs else None, szs[0][1] if szs else None))


def real_directive_via_mapping(prev, s):
    """the same question asked through the public entry point: a mapping that spells the VALID directive `prev` for
    one rank and `s` for another rank of the same tensor (so that nothing on the way to the parser - caches, keys -
    can confuse the two spellings)"""
    from teaal.parse import Mapping
    y = 'mapping:\n  partitioning:\n    Z:\n      K:\n      - "%s"\n      M:\n      - "%s"\n' % (prev, s)
    try:
        m = Mapping.from_str(y)
        part = m.get_partitioning()["Z"]
        t = [v for k, v in part.items() if "M" in [str(x) for x in k.scan_values(lambda _: True)]][0][0]
    except Exception:      # noqa
        return REJECT
    leader = [str(c.children[0]) for c in t.find_data("leader")]
    szs = [(c.data, str(c.children[0])) for c in list(t.find_data("int_sz")) + list(t.find_data("str_sz"))]
    if len(leader) > 1 or len(szs) > 1:
        return ("ok", ("malformed tree", str(t)))
    return ("ok", (str(t.data), leader[0] if leader else None, szs[0][0] if szs else None, szs[0][1] if szs else None))


def read_ranks(s):
    m = _full("(" + NAME + ")", s)
    if m:
        return ("ok", [m.group(1)])
    m = _full(r"\(" + W + NAME + "(?:" + W + "," + W + NAME + ")+" + W + r"\)", s)
    if m:
        return ("ok", re.findall(NAME, s))
    return REJECT


def real_ranks(s):
    from teaal.parse.partitioning import PartitioningParser
    try:
        t = PartitioningParser.parse_ranks(s)
    except Exception:      # noqa
        return REJECT
    return ("ok", [str(c) for c in t.children])


def read_stamp(s):
    m = _full("(" + NAME + ")" + W + r"(\.pos|\.coord)?", s)
    if not m:
        return REJECT
    # NAME.pos with NAME greedy: 'K.pos' -> name K; a name cannot contain '.', so the split is unique
    return ("ok", ("coord" if m.group(2) == ".coord" else "pos", m.group(1)))


def real_stamp(s):
    from teaal.parse.spacetime import SpaceTimeParser
    try:
        t = SpaceTimeParser.parse(s)
    except Exception:      # noqa
        return REJECT
    return ("ok", (str(t.data), str(t.children[0])))


def real_stamp_via_mapping(s, where="space"):
    """the same question asked through Mapping.from_str: the stamp written (quoted, so that YAML keeps it verbatim) in the
    space or time list of a mapping"""
    from teaal.parse import Mapping
    other = "time" if where == "space" else "space"
    y = 'mapping:\n  spacetime:\n    Z:\n      %s:\n      - "%s"\n      %s: []\n' % (where, s, other)
    try:
        t = Mapping.from_str(y).get_spacetime()["Z"][where][0]
        return ("ok", (str(t.data), str(t.children[0])))
    except Exception:      # noqa
        return REJECT


def read_level(s):
    m = _full("(" + NAME + ")" + W + r"(?:\[0\.\." + W + "(" + NUMBER + ")" + W + r"\])?", s)
    if not m:
        return REJECT
    if m.group(2) is not None and not re.fullmatch("[0-9]+", m.group(2)):
        return ("unsure",)          # '[0..' followed by a float-looking numeral: several tokenisations
    return ("ok", ("single", m.group(1), None) if m.group(2) is None else ("multiple", m.group(1), m.group(2)))


def real_level(s):
    from teaal.parse.level import LevelParser
    try:
        t = LevelParser.parse(s)
    except Exception:      # noqa
        return REJECT
    return ("ok", (str(t.data), str(t.children[0]), None if len(t.children) < 2 else str(t.children[1])))


# ------------------------------------------------------------------------------------------------ Einsums
TOK = re.compile(r"[ \t]+|take\(|" + NUMBER + "|" + NAME + r"|[\[\],*+\-=()]|.")


def tokens(s):
    return [t for t in TOK.findall(s)]


class _P:
    def __init__(self, toks):
        self.t = [x for x in toks if not x.isspace()]
        self.i = 0

    def peek(self):
        return self.t[self.i] if self.i < len(self.t) else None

    def eat(self, x):
        if self.peek() != x:
            raise ValueError("expected %r" % x)
        self.i += 1

    def name(self):
        x = self.peek()
        if x is None or not re.fullmatch(NAME, x):
            raise ValueError("name")
        self.i += 1
        return x

    def number(self):
        x = self.peek()
        if x is None or not re.fullmatch(NUMBER, x):
            raise ValueError("number")
        self.i += 1
        return x

    def iterm(self):
        x = self.peek()
        if x == "-":
            self.i += 1
            n = self.number()
            self.eat("*")
            return ("-" + n, self.name())
        if x is not None and re.fullmatch(NUMBER, x):
            n = self.number()
            self.eat("*")
            return (n, self.name())
        return (None, self.name())

    def iexpr(self):
        out = [self.iterm()]
        while self.peek() == "+":
            self.i += 1
            out.append(self.iterm())
        return out

    def access(self):
        nm = self.name()
        self.eat("[")
        ranks = []
        if self.peek() != "]":
            ranks.append(self.iexpr())
            while self.peek() == ",":
                self.i += 1
                ranks.append(self.iexpr())
        self.eat("]")
        return (nm, ranks)

    def factor(self):
        nm = self.name()
        if self.peek() == "[":
            self.i -= 1
            a = self.access()
            return ("tensor", a[0], a[1])
        return ("var", nm)

    def term(self):
        if self.peek() == "take(":
            self.i += 1
            fs = [self.factor()]
            self.eat(",")
            while True:
                x = self.peek()
                if x is not None and re.fullmatch(NUMBER, x):
                    sel = self.number()
                    self.eat(")")
                    return ("take", fs, sel)
                fs.append(self.factor())
                self.eat(",")
        fs = [self.factor()]
        while self.peek() == "*":
            self.i += 1
            fs.append(self.factor())
        return ("times", fs)

    def einsum(self):
        out = self.access()
        self.eat("=")
        terms = [self.term()]
        while self.peek() == "+":
            self.i += 1
            terms.append(self.term())
        if self.peek() is not None:
            raise ValueError("trailing")
        return (out, terms)


def read_einsum(s):
    toks = tokens(s)
    # (the lexer above is longest-match and lark's is not, but no two adjacent NAME / NUMBER tokens are ever
    #  grammatical here, so the token boundaries of an accepted string are unique)
    try:
        return ("ok", _P(toks).einsum())
    except ValueError:
        return REJECT


def real_einsum(s):
    from teaal.parse.equation import EquationParser
    try:
        tree = EquationParser.parse(s)
    except Exception:      # noqa
        return REJECT

    def iexpr(n):
        out = []
        for t in n.children:
            if t.data == "ijust":
                out.append((None, str(t.children[0])))
            else:
                out.append((str(t.children[0]), str(t.children[1])))
        return out

    def access(n):
        return (str(n.children[0]), [iexpr(c) if c is not None else "None-child" for c in n.children[1].children])

    def factor(n):
        if n.data == "var":
            return ("var", str(n.children[0]))
        nm, ie = access(n)
        return ("tensor", nm, ie)
    try:
        out = access(tree.children[0])
        terms = []
        for t in tree.children[1].children:
            if t.data == "times":
                terms.append(("times", [factor(f) for f in t.children]))
            else:
                terms.append(("take", [factor(f) for f in t.children[:-1]], str(t.children[-1])))
        return ("ok", (out, terms))
    except Exception as e:      # noqa
        return ("ok", ("malformed tree", repr(e)))


def norm_coef(structure):
    """coefficients compared as integers where both sides are integers ('-3' vs -3 after the post-parse rewrite)"""
    def c(x):
        try:
            return int(x)
        except (TypeError, ValueError):
            return x

    def ie(t):
        return [(c(a), b) for a, b in t] if isinstance(t, list) else t
    if not (isinstance(structure, tuple) and len(structure) == 2 and isinstance(structure[1], list)):
        return structure
    (on, oranks), terms = structure
    out = []
    for t in terms:
        fs = [(f[0], f[1]) if f[0] == "var" else (f[0], f[1], [ie(x) for x in f[2]]) for f in t[1]]
        out.append((t[0], fs) + ((c(t[2]),) if t[0] == "take" else ()))
    return ((on, [ie(x) for x in oranks]), out)


# ------------------------------------------------------------------------------------------------ mutations
def mutations(s, pool, rnd, cap):
    """single-token mutations of s: drop, duplicate, swap neighbours, split a token by a blank, replace, append"""
    toks = tokens(s)
    idx = [i for i, t in enumerate(toks) if not t.isspace()]
    out = []
    for i in idx:
        out.append("".join(toks[:i] + toks[i + 1:]))
        out.append("".join(toks[:i] + [toks[i], toks[i]] + toks[i + 1:]))
        if len(toks[i]) > 1:
            for cut in range(1, len(toks[i])):
                out.append("".join(toks[:i] + [toks[i][:cut] + " " + toks[i][cut:]] + toks[i + 1:]))
        for r in pool:
            if r != toks[i]:
                out.append("".join(toks[:i] + [r] + toks[i + 1:]))
    for a, b in zip(idx, idx[1:]):
        t2 = list(toks)
        t2[a], t2[b] = t2[b], t2[a]
        out.append("".join(t2))
    for r in pool:
        out.append(s + r)
        out.append(r + s)
    out = [o for o in dict.fromkeys(out) if o != s]
    if len(out) > cap:
        out = rnd.sample(out, cap)
    return out
