"""C09 half 1: the printer table. For every HiFiber class / operator and every hole, which precedence levels of a
child make `ast.parse(gen(node))` structurally the node. Computed on every run from the REAL printer (gen() of
teaal/hifiber/*.py) with CPython's own parser as oracle, by exhaustive enumeration over the finite abstraction
(class x operator x level representative per hole, statement nesting depth <= 3).

Trusted: Python's expression grammar is a precedence grammar (the behaviour of a hole depends on the child only
through the level of its printed text) - cross-checked by requiring all representatives of a level to agree."""
import ast
import itertools

LEVELS = ["LAMBDA", "CMP", "BOR", "BAND", "SHIFT", "ADD", "MUL", "UNARY", "POSTFIX", "INTLIT", "ATOM"]
RANK = {l: i for i, l in enumerate(LEVELS)}
OP_LEVEL = {"OEqEq": "CMP", "OLt": "CMP", "OIn": "CMP", "ONotIn": "CMP", "OOr": "BOR", "OAnd": "BAND",
            "OLtLt": "SHIFT", "OAdd": "ADD", "OSub": "ADD", "OMul": "MUL", "ODiv": "MUL", "OFDiv": "MUL", "OMod": "MUL"}
ASSOCIATIVE = {"OAdd", "OMul", "OAnd", "OOr"}
PY_BINOP = {"OAdd": ast.Add, "OSub": ast.Sub, "OMul": ast.Mult, "ODiv": ast.Div, "OFDiv": ast.FloorDiv,
            "OMod": ast.Mod, "OAnd": ast.BitAnd, "OOr": ast.BitOr, "OLtLt": ast.LShift}
PY_CMP = {"OEqEq": ast.Eq, "OLt": ast.Lt, "OIn": ast.In, "ONotIn": ast.NotIn}


def H():
    import teaal.hifiber as h
    return h


def level(node):
    """precedence level of the text gen() produces for an expression node (ghost function lvl)"""
    h = H()
    if isinstance(node, h.ELambda):
        return "LAMBDA"
    if isinstance(node, h.EBinOp):
        return OP_LEVEL[type(node.op).__name__]
    if isinstance(node, h.EInt):
        return "UNARY" if node.int < 0 else "INTLIT"      # `7.m()` is not an attribute access: its own level
    if isinstance(node, h.EFloat):
        if node.float == float("inf"):
            return "POSTFIX"
        return "UNARY" if node.float < 0 else "ATOM"
    if isinstance(node, (h.EMethod, h.EFunc, h.EAccess, h.EField)):
        return "POSTFIX"
    return "ATOM"


# ------------------------------------------------------------------ independent structural conversion
def _name(text, ctx=None):
    n = ast.parse(text, mode="eval").body
    return n


def to_ast(n):
    h = H()
    if isinstance(n, h.EVar):
        return _name(n.name)
    if isinstance(n, h.EInt):
        return ast.Constant(n.int) if n.int >= 0 else ast.UnaryOp(ast.USub(), ast.Constant(-n.int))
    if isinstance(n, h.EFloat):
        if n.float == float("inf"):
            return ast.Call(ast.Name("float", ast.Load()), [ast.Constant("inf")], [])
        if n.float == -float("inf"):
            return ast.UnaryOp(ast.USub(), ast.Call(ast.Name("float", ast.Load()), [ast.Constant("inf")], []))
        return ast.Constant(n.float) if n.float >= 0 else ast.UnaryOp(ast.USub(), ast.Constant(-n.float))
    if isinstance(n, h.EString):
        return ast.Constant(n.string)
    if isinstance(n, h.EBool):
        return ast.Constant(bool(n.bool))
    if isinstance(n, h.EBinOp):
        op = type(n.op).__name__
        if op in PY_CMP:
            return ast.Compare(to_ast(n.expr1), [PY_CMP[op]()], [to_ast(n.expr2)])
        return ast.BinOp(to_ast(n.expr1), PY_BINOP[op](), to_ast(n.expr2))
    if isinstance(n, h.EAccess):
        return ast.Subscript(to_ast(n.obj), to_ast(n.ind), ast.Load())
    if isinstance(n, h.EComp):
        return ast.ListComp(to_ast(n.elem), [ast.comprehension(ast.Name(n.var, ast.Store()), to_ast(n.iter), [], 0)])
    if isinstance(n, h.EDict):
        return ast.Dict([to_ast(k) for k in n.dict], [to_ast(v) for v in n.dict.values()])
    if isinstance(n, h.EList):
        return ast.List([to_ast(e) for e in n.list], ast.Load())
    if isinstance(n, h.ETuple):
        return ast.Tuple([to_ast(e) for e in n.elems], ast.Load())
    if isinstance(n, h.EField):
        return ast.Attribute(_name(n.obj), n.field, ast.Load())
    if isinstance(n, (h.EFunc, h.EMethod)):
        args = [to_ast(a.expr) for a in n.args if isinstance(a, h.AJust)]
        kws = [ast.keyword(a.name, to_ast(a.expr)) for a in n.args if isinstance(a, h.AParam)]
        f = _name(n.name) if isinstance(n, h.EFunc) else ast.Attribute(to_ast(n.obj), n.name, ast.Load())
        return ast.Call(f, args, kws)
    if isinstance(n, h.ELambda):
        return ast.Lambda(ast.arguments([], [ast.arg(a) for a in n.args], None, [], [], None, []), to_ast(n.body))
    if isinstance(n, h.EParens):
        return to_ast(n.expr)
    raise TypeError("expression class %s" % type(n).__name__)


def _store(e):
    for x in ast.walk(e):
        if hasattr(x, "ctx"):
            x.ctx = ast.Load()
    return e


def payload_ast(p):
    h = H()
    if isinstance(p, h.PVar):
        return _name(p.var)
    return ast.Tuple([payload_ast(q) for q in p.payloads], ast.Load())


def stmts_ast(s):
    h = H()
    if isinstance(s, h.SBlock):
        out = []
        for x in s.stmts:
            out += stmts_ast(x)
        return out
    if isinstance(s, h.SAssign):
        return [ast.Assign([assn_ast(s.assn)], to_ast(s.expr))]
    if isinstance(s, h.SExpr):
        return [ast.Expr(to_ast(s.expr))]
    if isinstance(s, h.SFor):
        return [ast.For(payload_ast(s.payload), to_ast(s.expr), stmts_ast(s.stmt), [])]
    if isinstance(s, h.SFunc):
        return [ast.FunctionDef(s.name, ast.arguments([], [ast.arg(a.name) for a in s.args], None, [], [], None, []),
                                stmts_ast(s.body), [])]
    if isinstance(s, h.SIAssign):
        return [ast.AugAssign(assn_ast(s.assn), PY_BINOP[type(s.op).__name__](), to_ast(s.expr))]
    if isinstance(s, h.SIf):
        chain = [s.if_] + list(s.elifs)
        orelse = stmts_ast(s.else_) if s.else_ is not None else []
        for cond, body in reversed(chain):
            node = ast.If(to_ast(cond), stmts_ast(body), orelse)
            orelse = [node]
        return [node]
    if isinstance(s, h.SReturn):
        return [ast.Return(to_ast(s.expr))]
    raise TypeError("statement class %s" % type(s).__name__)


def assn_ast(a):
    h = H()
    if isinstance(a, h.AVar):
        return _name(a.name)
    if isinstance(a, h.AAccess):
        return ast.Subscript(to_ast(a.obj), to_ast(a.ind), ast.Load())
    if isinstance(a, h.AField):
        return ast.Attribute(_name(a.obj), a.field, ast.Load())
    raise TypeError(type(a).__name__)


class _Norm(ast.NodeTransformer):
    """flatten chains of ONE associative operator (the property allows re-association), drop ctx"""

    def visit_BinOp(self, node):
        self.generic_visit(node)
        if isinstance(node.op, (ast.Add, ast.Mult, ast.BitAnd, ast.BitOr)):
            ops = []

            def flat(x):
                if isinstance(x, ast.Call) and isinstance(x.func, ast.Name) and x.func.id == "__chain_" + type(node.op).__name__:
                    ops.extend(x.args)
                else:
                    ops.append(x)
            flat(node.left)
            flat(node.right)
            return ast.Call(ast.Name("__chain_" + type(node.op).__name__, ast.Load()), ops, [])
        return node


def canon(tree):
    tree = _Norm().visit(tree)
    for x in ast.walk(tree):
        if hasattr(x, "ctx"):
            x.ctx = ast.Load()
        if isinstance(x, ast.FunctionDef):
            x.type_params = []
    return ast.dump(tree, include_attributes=False)


def expr_agrees(node):
    """does ast.parse(gen(node)) denote `node`?"""
    try:
        parsed = ast.parse(node.gen(), mode="eval").body
    except SyntaxError:
        return False
    return canon(ast.Expression(parsed)) == canon(ast.Expression(to_ast(node)))


def stmt_agrees(stmt):
    try:
        parsed = ast.parse(stmt.gen(0)).body
    except SyntaxError:
        return False
    return canon(ast.Module(parsed, [])) == canon(ast.Module(stmts_ast(stmt), []))


# ------------------------------------------------------------------ representatives and shapes
def reps():
    """[(level, description, node)] - one or more printed shapes per precedence level"""
    h = H()
    a, b = h.EVar("a"), h.EVar("b")
    out = [("LAMBDA", "lambda", h.ELambda(["x"], h.EVar("y"))),
           ("LAMBDA", "lambda with binop body", h.ELambda(["x", "z"], h.EBinOp(h.EVar("x"), h.OAdd(), h.EInt(1))))]
    for op in ("OEqEq", "OLt", "OIn", "ONotIn", "OOr", "OAnd", "OLtLt", "OAdd", "OSub", "OMul", "ODiv", "OFDiv", "OMod"):
        out.append((OP_LEVEL[op], "a %s b" % op, h.EBinOp(a, getattr(h, op)(), b)))
    out += [("UNARY", "negative int", h.EInt(-3)), ("UNARY", "-inf", h.EFloat(-float("inf"))),
            ("UNARY", "negative float", h.EFloat(-1.5)),
            ("POSTFIX", "method", h.EMethod(a, "m", [h.AJust(b)])), ("POSTFIX", "func", h.EFunc("f", [h.AParam("k", b)])),
            ("POSTFIX", "access", h.EAccess(a, h.EInt(0))), ("POSTFIX", "field", h.EField("a", "f")),
            ("POSTFIX", "inf", h.EFloat(float("inf"))),
            ("INTLIT", "int", h.EInt(7)), ("INTLIT", "zero", h.EInt(0)),
            ("ATOM", "var", a), ("ATOM", "float", h.EFloat(2.5)),
            ("ATOM", "string", h.EString("s")), ("ATOM", "bool", h.EBool(True)),
            ("ATOM", "list", h.EList([a, b])), ("ATOM", "tuple2", h.ETuple([a, b])), ("ATOM", "tuple1", h.ETuple([a])),
            ("ATOM", "dict", h.EDict({h.EString("k"): a})), ("ATOM", "comp", h.EComp(a, "x", b)),
            ("ATOM", "parens(lambda)", h.EParens(h.ELambda(["x"], b))),
            ("ATOM", "parens(sum)", h.EParens(h.EBinOp(a, h.OAdd(), b)))]
    return out


def shapes():
    """{shape name: (kind, builder(child) -> node)}; one entry per class/operator and hole"""
    h = H()
    x, y = h.EVar("p"), h.EVar("q")
    sh = {}
    for op in OP_LEVEL:
        o = getattr(h, op)
        sh["EBinOp[%s].left" % op] = ("e", lambda c, o=o: h.EBinOp(c, o(), y))
        sh["EBinOp[%s].right" % op] = ("e", lambda c, o=o: h.EBinOp(x, o(), c))
    sh["EAccess.obj"] = ("e", lambda c: h.EAccess(c, y))
    sh["EAccess.ind"] = ("e", lambda c: h.EAccess(x, c))
    sh["EComp.elem"] = ("e", lambda c: h.EComp(c, "v", y))
    sh["EComp.iter"] = ("e", lambda c: h.EComp(x, "v", c))
    sh["EDict.key"] = ("e", lambda c: h.EDict({c: y}))
    sh["EDict.val"] = ("e", lambda c: h.EDict({h.EString("k"): c, h.EString("l"): y}))
    sh["EList.elem"] = ("e", lambda c: h.EList([x, c, y]))
    sh["ETuple.elem(1)"] = ("e", lambda c: h.ETuple([c]))
    sh["ETuple.elem(n)"] = ("e", lambda c: h.ETuple([x, c]))
    sh["EFunc.arg[AJust]"] = ("e", lambda c: h.EFunc("f", [h.AJust(c), h.AJust(y)]))
    sh["EFunc.arg[AParam]"] = ("e", lambda c: h.EFunc("f", [h.AJust(x), h.AParam("k", c)]))
    sh["EMethod.obj"] = ("e", lambda c: h.EMethod(c, "m", [h.AJust(y)]))
    sh["EMethod.arg[AJust]"] = ("e", lambda c: h.EMethod(x, "m", [h.AJust(c)]))
    sh["EMethod.arg[AParam]"] = ("e", lambda c: h.EMethod(x, "m", [h.AParam("k", c), h.AParam("l", y)]))
    sh["ELambda.body"] = ("e", lambda c: h.ELambda(["v"], c))
    sh["EParens.expr"] = ("e", lambda c: h.EParens(c))
    blk = lambda: h.SBlock([h.SExpr(h.EFunc("g", []))])     # noqa: E731
    sh["SAssign.expr"] = ("s", lambda c: h.SAssign(h.AVar("t"), c))
    sh["SAssign.assn[AAccess].obj"] = ("s", lambda c: h.SAssign(h.AAccess(c, y), x))
    sh["SAssign.assn[AAccess].ind"] = ("s", lambda c: h.SAssign(h.AAccess(x, c), y))
    sh["SExpr.expr"] = ("s", lambda c: h.SExpr(c))
    sh["SFor.expr"] = ("s", lambda c: h.SFor(h.PTuple([h.PVar("i"), h.PTuple([h.PVar("j"), h.PVar("k")])]), c, blk()))
    sh["SIAssign.expr"] = ("s", lambda c: h.SIAssign(h.AVar("t"), h.OAdd(), c))
    sh["SIf.cond"] = ("s", lambda c: h.SIf((c, blk()), [(c, blk())], blk()))
    sh["SReturn.expr"] = ("s", lambda c: h.SFunc("fn", [h.EVar("u")], h.SBlock([h.SReturn(c)])))
    return sh


def compute():
    """returns (table, cases, problems): table[shape] = set of accepted child levels"""
    table, cases, problems = {}, 0, []
    rp = reps()
    for name, (kind, build) in shapes().items():
        per_level = {}
        for lvl, desc, child in rp:
            node = build(child)
            ok = expr_agrees(node) if kind == "e" else stmt_agrees(node)
            cases += 1
            # same-operator chains of an associative operator are accepted up to re-association
            per_level.setdefault(lvl, []).append((desc, ok))
        acc = set()
        for lvl, results in per_level.items():
            oks = {ok for _, ok in results}
            if oks == {True}:
                acc.add(lvl)
            elif oks == {True, False}:
                # representatives of one level disagree: only allowed for the operator's own level on the
                # right of a non-associative operator / comparison chains (the operator itself matters there)
                same = name.startswith("EBinOp[") and OP_LEVEL[name[7:name.index("]")]] == lvl
                if not same:
                    problems.append("level abstraction not adequate for %s: %s" % (name, results))
                else:
                    opn = name[7:name.index("]")]
                    good = [d for d, ok in results if ok]
                    if opn in ASSOCIATIVE and good == ["a %s b" % opn] and name.endswith(".right"):
                        acc.add("SAME_ASSOC_OP")
                    elif name.endswith(".left") and all(ok for d, ok in results):
                        acc.add(lvl)
                    elif name.endswith(".left"):
                        # left operand of the same level: accepted for left-associative arithmetic, not for comparisons
                        acc.add("SAME_LEVEL_LEFT:" + ",".join(sorted(good)))
                    else:
                        acc.add("SAME_LEVEL_RIGHT:" + ",".join(sorted(good)))
        table[name] = acc
    # statement structure: nesting depth <= 3, several statements per block, elif/else chains
    h = H()
    leaf = [h.SExpr(h.EFunc("g", [])), h.SAssign(h.AVar("t"), h.EInt(1))]

    def blocks(depth):
        if depth == 0:
            return [h.SBlock(list(leaf))]
        out = []
        for inner in blocks(depth - 1):
            out.append(h.SBlock([h.SFor(h.PVar("i"), h.EVar("r"), inner), leaf[0]]))
            out.append(h.SBlock([h.SIf((h.EVar("c"), inner), [(h.EVar("d"), h.SBlock([leaf[1]]))], inner), leaf[1]]))
            out.append(h.SBlock([h.SIf((h.EVar("c"), inner), [], None)]))
            out.append(h.SBlock([h.SFunc("fn", [h.EVar("u")], h.SBlock([inner, h.SReturn(h.EVar("u"))]))]))
        return out
    for d in range(0, 4):
        for b in blocks(d):
            cases += 1
            if not stmt_agrees(b):
                problems.append("statement nesting depth %d: printed block does not parse to the tree" % d)
                break
    # an empty body can never be printed correctly: recorded as a requirement on builders
    empty_ok = stmt_agrees(h.SFor(h.PVar("i"), h.EVar("r"), h.SBlock([])))
    table["SFor.stmt/empty-body"] = {"ok"} if empty_ok else set()
    return table, cases, problems


def accepts(table, shape, lvl, same_op=None):
    acc = table.get(shape, set())
    if lvl in acc:
        return True
    if same_op and "SAME_ASSOC_OP" in acc:
        return True
    for a in acc:
        if a.startswith("SAME_LEVEL") and same_op and ("a %s b" % same_op) in a.split(":", 1)[1].split(","):
            return True
    return False


if __name__ == "__main__":
    t, n, p = compute()
    print(n, "cases", len(p), "problems")
    for k, v in t.items():
        print("%-30s %s" % (k, sorted(v, key=lambda l: RANK.get(l, 99))))
    for x in p:
        print("PROBLEM", x)
