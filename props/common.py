"""shared pieces of the per-property plugins"""
import json
import os
from pyvc import native
from pyvc.driver import Extra


def gens_of(sidecars):
    out = {}
    for m in sidecars:
        out.update(getattr(m, "GEN", {}))
    return out


def native_refute(uni, sidecar_modules, ob, replay_dir, limit=4000):
    """small-scope search on the REAL function under the same contract (native evaluation).
    returns a witness dict (already replayed on the real code) or None. Generator inputs are states the real
    code produced itself from a valid initial state, so a `requires` broken by an earlier call does not stop
    the search (the first broken clause is the witness, later ones are reported with it)."""
    key = ob.func
    gens = gens_of(sidecar_modules)
    if key not in gens:
        return None
    fn, cls = native.real_function(uni, key)
    nat = native.Native(uni)
    n = 0
    found = []
    want = ob.name.split("/", 1)[1].split("~")[0] if "/" in ob.name else ""
    for self_obj, args in gens[key]():
        n += 1
        if n > limit or len(found) >= 40:
            break
        try:
            desc = "self=%r args=%r" % (getattr(self_obj, "__dict__", self_obj), args)
        except Exception:      # noqa
            desc = "<unprintable>"
        try:
            nat.check_call(key, fn, self_obj, args, check_requires=not found)
        except native.ContractViolation as v:
            found.append({"function": key, "input": desc[:1500], "clause": v.clause, "detail": v.detail[:500],
                          "inputs_tried": n,
                          "how": "native small-scope search: real function executed under the sidecar contract"})
        except Exception:      # noqa
            continue
    if not found:
        return None
    best = [f for f in found if f["clause"] == want] or found
    w = dict(best[0])
    w["all_failing_clauses"] = sorted({f["clause"] for f in found})
    prop_level = [f for f in found if not f["clause"].startswith("post[Inv")]
    if prop_level and prop_level[0] is not best[0]:
        w["property_level_witness"] = prop_level[0]
    return w


def native_sweep(uni, sidecar_modules, keys, limit=100000):
    """run every generator against the real functions (bounded, labelled as such); returns (evaluations, failures)"""
    gens = gens_of(sidecar_modules)
    nat = native.Native(uni)
    failures = []
    per = {}
    for key in keys:
        if key not in gens:
            continue
        fn, cls = native.real_function(uni, key)
        c = 0
        for self_obj, args in gens[key]():
            c += 1
            if c > limit:
                break
            try:
                desc = "self=%r args=%r" % (getattr(self_obj, "__dict__", self_obj), args)
            except Exception:      # noqa
                desc = "<unprintable>"
            try:
                nat.check_call(key, fn, self_obj, args, ghost_exit=uni.contracts[key].get("ghost_exit_native"))
            except native.ContractViolation as v:
                failures.append({"name": "%s/%s" % (key, v.clause), "detail": v.detail[:300],
                                 "witness": {"function": key, "input": desc[:1000], "clause": v.clause}})
                break
            except native.ContractEvalError:
                per["contract-evaluation-errors"] = per.get("contract-evaluation-errors", 0) + 1
        per[key] = c
    return nat.evaluations, failures, per


def accelerator_specs():
    """(name, yaml text) of full specifications (einsum + mapping + architecture + bindings + format): the
    integration YAMLs plus YAML string literals found in the repository's test files (used as inputs only)"""
    import ast as _ast
    import glob as _glob
    from pyvc.extract import REPO
    out, seen = [], set()
    for path in sorted(_glob.glob(REPO + "/tests/integration/*.yaml")):
        txt = open(path).read()
        if "bindings:" in txt and "architecture:" in txt and "einsum:" in txt:
            out.append((path.rsplit("/", 1)[1], txt))
            seen.add(txt)
    for path in sorted(_glob.glob(REPO + "/tests/**/*.py", recursive=True)):
        try:
            tree = _ast.parse(open(path).read())
        except SyntaxError:
            continue
        k = 0
        for n in _ast.walk(tree):
            if isinstance(n, _ast.Constant) and isinstance(n.value, str) and "einsum:" in n.value \
                    and "bindings:" in n.value and "architecture:" in n.value and n.value not in seen:
                seen.add(n.value)
                k += 1
                out.append(("%s#%d" % (path.rsplit("/", 1)[1], k), n.value))
    return out


def compile_full(txt, fill_spacetime=True):
    """metrics-mode compilation; an Einsum without a spacetime entry gets the all-temporal default (harness-side
    completion of the input, so that more of the repository's accelerator snippets are usable)"""
    from teaal.parse import Einsum, Mapping, Architecture, Bindings, Format
    from teaal.parse.spacetime import SpaceTimeParser
    from teaal.ir.program import Program
    from teaal.trans.hifiber import HiFiber
    es, ms = Einsum.from_str(txt), Mapping.from_str(txt)
    if fill_spacetime:
        prog = Program(Einsum.from_str(txt), Mapping.from_str(txt))
        for i, expr in enumerate(es.get_expressions()):
            out = str(next(expr.find_data("output")).children[0])
            if out not in ms.get_spacetime():
                prog.add_einsum(i)
                ranks = prog.get_loop_order().get_ranks()
                prog.reset()
                ms.get_spacetime()[out] = {"space": [], "time": [SpaceTimeParser.parse(r) for r in ranks]}
    return HiFiber(es, ms, Architecture.from_str(txt), Bindings.from_str(txt), Format.from_str(txt))


# ------------------------------------------------------------------------------------- accelerator spec variants
_INDEX_MATH_SPECS = [("conv1d-buffered-input", """
einsum:
  declaration:
    I: [W]
    F: [S]
    O: [Q]
  expressions:
  - O[q] = I[q + s] * F[s]
mapping:
  loop-order:
    O: [Q, S]
architecture:
  acc:
  - name: System
    attributes:
      clock_frequency: 1000000000
    local:
    - name: Mem
      class: DRAM
      attributes:
        bandwidth: 256
    subtree:
    - name: PE
      local:
      - name: Buf
        class: Buffet
        attributes:
          width: 64
          depth: 512
      - name: Seq
        class: Sequencer
        attributes:
          num_ranks: 2
      - name: Mul
        class: Compute
        attributes:
          type: mul
bindings:
  O:
  - config: acc
    prefix: tmp/conv1d
  - component: Mem
    bindings:
    - {tensor: I, rank: W, type: coord, format: default}
    - {tensor: I, rank: W, type: payload, format: default}
    - {tensor: F, rank: S, type: payload, format: default}
  - component: Buf
    bindings:
    - {tensor: I, rank: W, type: coord, format: default, evict-on: root}
    - {tensor: I, rank: W, type: payload, format: default, evict-on: root}
    - {tensor: F, rank: S, type: payload, format: default, evict-on: root}
  - component: Seq
    bindings:
    - rank: Q
    - rank: S
  - component: Mul
    bindings:
    - op: mul
format:
  I:
    default:
      rank-order: [W]
      W: {format: C, cbits: 32, pbits: 64}
  F:
    default:
      rank-order: [S]
      S: {format: C, cbits: 32, pbits: 64}
"""), ("strided-access-buffered", """
einsum:
  declaration:
    A: [K]
    B: [M]
    Z: [M]
  expressions:
  - Z[m] = A[2 * m] * B[m]
mapping:
  loop-order:
    Z: [M]
architecture:
  acc:
  - name: System
    attributes:
      clock_frequency: 1000
    local:
    - name: Mem
      class: DRAM
      attributes:
        bandwidth: 256
    subtree:
    - name: Chip
      local:
      - name: Buf
        class: Buffet
        attributes:
          width: 64
          depth: 512
bindings:
  Z:
  - config: acc
    prefix: tmp/strided
  - component: Mem
    bindings:
    - {tensor: A, rank: K, type: coord, format: default}
    - {tensor: A, rank: K, type: payload, format: default}
  - component: Buf
    bindings:
    - {tensor: A, rank: K, type: coord, format: default, evict-on: root}
    - {tensor: A, rank: K, type: payload, format: default, evict-on: root}
format:
  A:
    default:
      rank-order: [K]
      K: {format: C, cbits: 32, pbits: 64}
""")]


def accelerator_variants(tier="quick"):
    """(name, yaml text): the accelerator specifications of the repository, two small index-math specifications, and
    single-point variants of each: the style of ONE buffer binding flipped (lazy <-> eager), the type of ONE
    intersector changed. Variants the compiler rejects are simply not evaluated by the callers."""
    import copy
    import io
    from ruamel.yaml import YAML

    class yaml:      # noqa: N801  (ruamel is what the repository itself depends on)
        @staticmethod
        def safe_load(t):
            return YAML(typ="safe").load(t)

        @staticmethod
        def safe_dump(d, sort_keys=False):
            buf = io.StringIO()
            y = YAML(typ="safe")
            y.default_flow_style = False
            y.sort_base_mapping_type_on_output = False
            y.dump(d, buf)
            return buf.getvalue()
    base = list(accelerator_specs()) + list(_INDEX_MATH_SPECS)
    out = list(base)
    for name, txt in base:
        try:
            doc = yaml.safe_load(txt)
        except Exception:      # noqa
            continue
        if not isinstance(doc, dict) or not isinstance(doc.get("bindings"), dict):
            continue
        n = 0
        for einsum, comps in doc["bindings"].items():
            for ci, comp in enumerate(comps or []):
                for bi, b in enumerate(comp.get("bindings") or [] if isinstance(comp, dict) else []):
                    if not isinstance(b, dict) or "tensor" not in b or "evict-on" not in b:
                        continue
                    for new in ("lazy", "eager"):
                        if b.get("style", "lazy") == new:
                            continue
                        n += 1
                        d2 = copy.deepcopy(doc)
                        b2 = d2["bindings"][einsum][ci]["bindings"][bi]
                        b2["style"] = new
                        out.append(("%s ~ %s/%s[%d].style=%s" % (name, einsum, comp.get("component"), bi, new),
                                    yaml.safe_dump(d2, sort_keys=False)))

        def levels(node):
            yield node
            for s in node.get("subtree") or []:
                yield from levels(s)
        for cfg, roots in (doc.get("architecture") or {}).items():
            for root in roots or []:
                for lv in levels(root):
                    for li, loc in enumerate(lv.get("local") or []):
                        if str(loc.get("class", "")).lower() != "intersector":
                            continue
                        for ty in ("skip-ahead", "two-finger"):
                            if (loc.get("attributes") or {}).get("type") == ty:
                                continue
                            d2 = copy.deepcopy(doc)
                            for lv2 in [x for r in d2["architecture"][cfg] for x in levels(r)]:
                                for loc2 in lv2.get("local") or []:
                                    if loc2.get("name") == loc.get("name"):
                                        loc2.setdefault("attributes", {})["type"] = ty
                            out.append(("%s ~ %s.type=%s" % (name, loc.get("name"), ty), yaml.safe_dump(d2, sort_keys=False)))
    return out
