"""shared pieces of the per-property plugins"""
import json
import os
from pyvc import native
from pyvc.driver import Extra


def gens_of(sidecars):
    out = {}
    for m in sidecars:
        out.update(getattr(m, "GEN", {}))
    return out


def native_refute(uni, sidecar_modules, ob, replay_dir, limit=4000):
    """small-scope search on the REAL function under the same contract (native evaluation).
    returns a witness dict (already replayed on the real code) or None. Generator inputs are states the real
    code produced itself from a valid initial state, so a `requires` broken by an earlier call does not stop
    the search (the first broken clause is the witness, later ones are reported with it)."""
    key = ob.func
    gens = gens_of(sidecar_modules)
    if key not in gens:
        return None
    fn, cls = native.real_function(uni, key)
    nat = native.Native(uni)
    n = 0
    found = []
    want = ob.name.split("/", 1)[1].split("~")[0] if "/" in ob.name else ""
    for self_obj, args in gens[key]():
        n += 1
        if n > limit or len(found) >= 40:
            break
        try:
            desc = "self=%r args=%r" % (getattr(self_obj, "__dict__", self_obj), args)
        except Exception:      # noqa
            desc = "<unprintable>"
        try:
            nat.check_call(key, fn, self_obj, args, check_requires=not found)
        except native.ContractViolation as v:
            found.append({"function": key, "input": desc[:1500], "clause": v.clause, "detail": v.detail[:500],
                          "inputs_tried": n,
                          "how": "native small-scope search: real function executed under the sidecar contract"})
        except Exception:      # noqa
            continue
    if not found:
        return None
    best = [f for f in found if f["clause"] == want] or found
    w = dict(best[0])
    w["all_failing_clauses"] = sorted({f["clause"] for f in found})
    prop_level = [f for f in found if not f["clause"].startswith("post[Inv")]
    if prop_level and prop_level[0] is not best[0]:
        w["property_level_witness"] = prop_level[0]
    return w


def native_sweep(uni, sidecar_modules, keys, limit=100000):
    """run every generator against the real functions (bounded, labelled as such); returns (evaluations, failures)"""
    gens = gens_of(sidecar_modules)
    nat = native.Native(uni)
    failures = []
    per = {}
    for key in keys:
        if key not in gens:
            continue
        fn, cls = native.real_function(uni, key)
        c = 0
        for self_obj, args in gens[key]():
            c += 1
            if c > limit:
                break
            try:
                desc = "self=%r args=%r" % (getattr(self_obj, "__dict__", self_obj), args)
            except Exception:      # noqa
                desc = "<unprintable>"
            try:
                nat.check_call(key, fn, self_obj, args, ghost_exit=uni.contracts[key].get("ghost_exit_native"))
            except native.ContractViolation as v:
                failures.append({"name": "%s/%s" % (key, v.clause), "detail": v.detail[:300],
                                 "witness": {"function": key, "input": desc[:1000], "clause": v.clause}})
                break
        per[key] = c
    return nat.evaluations, failures, per


def accelerator_specs():
    """(name, yaml text) of full specifications (einsum + mapping + architecture + bindings + format): the
    integration YAMLs plus YAML string literals found in the repository's test files (used as inputs only)"""
    import ast as _ast
    import glob as _glob
    from pyvc.extract import REPO
    out, seen = [], set()
    for path in sorted(_glob.glob(REPO + "/tests/integration/*.yaml")):
        txt = open(path).read()
        if "bindings:" in txt and "architecture:" in txt and "einsum:" in txt:
            out.append((path.rsplit("/", 1)[1], txt))
            seen.add(txt)
    for path in sorted(_glob.glob(REPO + "/tests/**/*.py", recursive=True)):
        try:
            tree = _ast.parse(open(path).read())
        except SyntaxError:
            continue
        k = 0
        for n in _ast.walk(tree):
            if isinstance(n, _ast.Constant) and isinstance(n.value, str) and "einsum:" in n.value \
                    and "bindings:" in n.value and "architecture:" in n.value and n.value not in seen:
                seen.add(n.value)
                k += 1
                out.append(("%s#%d" % (path.rsplit("/", 1)[1], k), n.value))
    return out


def compile_full(txt, fill_spacetime=True):
    """metrics-mode compilation; an Einsum without a spacetime entry gets the all-temporal default (harness-side
    completion of the input, so that more of the repository's accelerator snippets are usable)"""
    from teaal.parse import Einsum, Mapping, Architecture, Bindings, Format
    from teaal.parse.spacetime import SpaceTimeParser
    from teaal.ir.program import Program
    from teaal.trans.hifiber import HiFiber
    es, ms = Einsum.from_str(txt), Mapping.from_str(txt)
    if fill_spacetime:
        prog = Program(Einsum.from_str(txt), Mapping.from_str(txt))
        for i, expr in enumerate(es.get_expressions()):
            out = str(next(expr.find_data("output")).children[0])
            if out not in ms.get_spacetime():
                prog.add_einsum(i)
                ranks = prog.get_loop_order().get_ranks()
                prog.reset()
                ms.get_spacetime()[out] = {"space": [], "time": [SpaceTimeParser.parse(r) for r in ranks]}
    return HiFiber(es, ms, Architecture.from_str(txt), Bindings.from_str(txt), Format.from_str(txt))
