"""shared pieces of the per-property plugins"""
import json
import os
from pyvc import native
from pyvc.driver import Extra


def gens_of(sidecars):
    out = {}
    for m in sidecars:
        out.update(getattr(m, "GEN", {}))
    return out


def native_refute(uni, sidecar_modules, ob, replay_dir, limit=4000):
    """small-scope search on the REAL function under the same contract (native evaluation).
    returns a witness dict (already replayed on the real code) or None."""
    key = ob.func
    gens = gens_of(sidecar_modules)
    if key not in gens:
        return None
    fn, cls = native.real_function(uni, key)
    nat = native.Native(uni)
    n = 0
    for self_obj, args in gens[key]():
        n += 1
        if n > limit:
            break
        try:
            desc = "self=%r args=%r" % (getattr(self_obj, "__dict__", self_obj), args)
        except Exception:      # noqa
            desc = "<unprintable>"
        try:
            nat.check_call(key, fn, self_obj, args, ghost_exit=uni.contracts[key].get("ghost_exit_native"))
        except native.ContractViolation as v:
            return {"function": key, "input": desc[:1500], "clause": v.clause, "detail": v.detail[:500],
                    "inputs_tried": n, "how": "native small-scope search: real function executed under the sidecar contract"}
    return None


def native_sweep(uni, sidecar_modules, keys, limit=100000):
    """run every generator against the real functions (bounded, labelled as such); returns (evaluations, failures)"""
    gens = gens_of(sidecar_modules)
    nat = native.Native(uni)
    failures = []
    per = {}
    for key in keys:
        if key not in gens:
            continue
        fn, cls = native.real_function(uni, key)
        c = 0
        for self_obj, args in gens[key]():
            c += 1
            if c > limit:
                break
            try:
                desc = "self=%r args=%r" % (getattr(self_obj, "__dict__", self_obj), args)
            except Exception:      # noqa
                desc = "<unprintable>"
            try:
                nat.check_call(key, fn, self_obj, args, ghost_exit=uni.contracts[key].get("ghost_exit_native"))
            except native.ContractViolation as v:
                failures.append({"name": "%s/%s" % (key, v.clause), "detail": v.detail[:300],
                                 "witness": {"function": key, "input": desc[:1000], "clause": v.clause}})
                break
        per[key] = c
    return nat.evaluations, failures, per
