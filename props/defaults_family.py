"""Bounded companion of C19: omitted mapping sections vs the explicitly written default, the default being computed
here from the specification text alone (independently of the compiler)."""
import re

SPECS = [
    # (declaration, expression, partitioning options for the output [list of {rank: [directives]}])
    ({"A": "[K, M]", "Z": "[M]"}, "Z[m] = A[k, m]", [{}, {"K": ["uniform_shape(4)"]}, {"M": ["uniform_shape(2)"]},
                                                     {"K": ["uniform_shape(8)", "uniform_shape(4)"]},
                                                     {"K": ["uniform_occupancy(A.4)"]}]),
    ({"A": "[K, M]", "B": "[K, N]", "Z": "[M, N]"}, "Z[m, n] = A[k, m] * B[k, n]",
     [{}, {"K": ["uniform_shape(4)"]}, {"N": ["uniform_shape(3)"], "K": ["uniform_occupancy(A.5)"]},
      {"M": ["nway_shape(2)"]}]),
    ({"I": "[W]", "F": "[R, S]", "O": "[Q]"}, "O[q] = I[2*r + s + q] * F[r, s]", [{}]),
    ({"I": "[W, V]", "F": "[R, S]", "O": "[Q]"}, "O[q] = I[3*r + q, s] * F[r, s]", [{}, {"S": ["uniform_shape(2)"]}]),
    ({"I": "[W]", "F": "[S]", "O": "[Q]"}, "O[q] = I[q + s] * F[s]", [{}]),
    ({"I": "[W, V]", "F": "[S, R]", "O": "[Q]"}, "O[q] = I[2*q + s, 3*r] * F[s, r]", [{}]),
    ({"I": "[H, W]", "F": "[R, S]", "O": "[P, Q]"}, "O[p, q] = I[p + 2*r, s + q] * F[r, s]", [{}]),
    ({"A": "[I]", "B": "[I]", "Z": "[]"}, "Z[] = A[i] * B[i]", [{}, {"I": ["uniform_shape(4)"]}]),
    ({"A": "[K, M]", "B": "[K]", "Z": "[M]"}, "Z[m] = take(A[k, m], B[k], 0)", [{}]),
    ({"A": "[I, J, K]", "B": "[I, K, J]", "Z": "[I]"}, "Z[i] = A[i, 4*j, k] + B[i, k, j]", [{}]),
    ({"A": "[J, K]", "B": "[K, J]", "Z": "[J]"}, "Z[j] = A[j, k] + B[k, j]", [{}, {"K": ["uniform_shape(2)"]}]),
    ({"A": "[N, M, K]", "Z": "[M]"}, "Z[m] = A[n, m, 3*k]", [{}, {"N": ["uniform_shape(6)", "uniform_shape(3)"]}]),
    # contracted ranks in a different order in a later term / used by more operands later / third operand first
    ({"A": "[M, K, J]", "B": "[M, J, K]", "Z": "[M]"}, "Z[m] = A[m, k, j] + B[m, j, k]", [{}, {"K": ["uniform_shape(4)", "uniform_shape(2)"]}]),
    ({"A": "[M, K, J]", "B": "[M, J, K]", "C": "[M, J, K]", "Z": "[M]"}, "Z[m] = A[m, k, j] + B[m, j, k] + C[m, j, k]", [{}]),
    ({"A": "[M, K, J]", "B": "[J]", "Z": "[M]"}, "Z[m] = A[m, k, j] * B[j]", [{}, {"K": ["uniform_shape(4)", "uniform_shape(2)"]}]),
    ({"A": "[M, K, J]", "B": "[J]", "Z": "[M]"}, "Z[m] = take(A[m, k, j], B[j], 0)", [{}]),
    ({"A": "[M, I]", "B": "[K, N]", "C": "[K]", "Z": "[M, N]"}, "Z[m, n] = A[m, i] * B[k, n] * C[k]", [{}]),
    ({"I": "[C, W]", "F": "[S]", "O": "[Q]"}, "O[q] = I[c, 2*q + s] * F[s]", [{}]),
    # more than ten levels of one rank (level numbers with two digits)
    ({"A": "[K, M]", "Z": "[M]"}, "Z[m] = A[k, m]", [{"K": ["uniform_shape(%d)" % (2 ** (12 - i)) for i in range(11)]}]),
]
# rank-order given for the output (differs from how the output is written); only the loop order is omitted
RANK_ORDER_CASES = [
    ({"A": "[K, M]", "B": "[K, N]", "Z": "[M, N]"}, "Z[m, n] = A[k, m] * B[k, n]", {"Z": "[N, M]"}),
    ({"A": "[K, M]", "B": "[K, N]", "Z": "[M, N]"}, "Z[m, n] = A[k, m] * B[k, n]", {"Z": "[N, M]", "A": "[M, K]"}),
    ({"A": "[J, K, M]", "Z": "[K, M]"}, "Z[k, m] = A[j, k, m]", {"Z": "[M, K]"}),
]


def written_ranks(expr):
    """ranks in the order written: output first, then first appearance on the right-hand side"""
    lhs, rhs = expr.split("=", 1)
    out = [v.upper() for v in re.findall(r"[a-z]+", lhs.split("[", 1)[1])]
    order = list(out)
    for acc in re.findall(r"[A-Z]\w*\[([^\]]*)\]", rhs):
        for v in re.findall(r"[a-z]+", acc):
            if v.upper() not in order:
                order.append(v.upper())
    return order


def expand(order, part):
    res = []
    for r in order:
        if r in part:
            n = len(part[r])
            res += ["%s%d" % (r, lvl) for lvl in range(n, -1, -1)]
        else:
            res.append(r)
    return res


def yaml_of(decl, expr, part, explicit, empty_lists=False):
    """explicit: rank-order and loop-order written out; empty_lists: additionally "no partitioning" written out as an
    empty directive list for every rank the mapping does not partition"""
    out = expr.split("[", 1)[0].strip()
    y = "einsum:\n  declaration:\n" + "".join("    %s: %s\n" % kv for kv in decl.items())
    y += "  expressions:\n    - %s\n" % expr
    y += "mapping:\n"
    if explicit:
        y += "  rank-order:\n" + "".join("    %s: %s\n" % kv for kv in decl.items())
        y += "  loop-order:\n    %s: [%s]\n" % (out, ", ".join(expand(written_ranks(expr), part)))
    part = dict(part)
    if empty_lists:
        for r in written_ranks(expr):
            part.setdefault(r, [])
    if part:
        y += "  partitioning:\n    %s:\n" % out
        for r, ds in part.items():
            y += "      %s: [%s]\n" % (r, ", ".join(ds))
    elif empty_lists:
        y += "  partitioning:\n    %s: {}\n" % out
    return y


def sweep():
    from teaal.parse import Einsum, Mapping
    from teaal.trans.hifiber import HiFiber
    ev, fails, samples, distinct = 0, [], [], set()
    for decl, expr, parts in SPECS:
        for part in parts:
            texts = []
            for explicit, empty in ((False, False), (True, False), (True, True)):
                y = yaml_of(decl, expr, part, explicit, empty)
                try:
                    texts.append(str(HiFiber(Einsum.from_str(y), Mapping.from_str(y))))
                except Exception as e:      # noqa
                    texts.append("ERROR %s: %s" % (type(e).__name__, e))
            if texts[0].startswith("ERROR"):
                continue            # not a legal specification: nothing to compare
            ev += 1
            distinct.add(texts[0])
            if len(samples) < 3:
                samples.append({"einsum": expr, "partitioning": part, "default_loop_order": expand(written_ranks(expr), part)})
            if texts[0] != texts[1] or texts[0] != texts[2]:
                fails.append({"name": "bounded/omitted-vs-explicit-default",
                              "detail": "%s with partitioning %s: omitted mapping differs from the written default %s%s"
                                        % (expr, part, expand(written_ranks(expr), part),
                                           "" if texts[0] != texts[1] else " when 'no partitioning' is written as empty directive lists"),
                              "witness": {"einsum": expr, "partitioning": part,
                                          "explicit_default_loop_order": expand(written_ranks(expr), part),
                                          "yaml_omitted": yaml_of(decl, expr, part, False)}})
    for decl, expr, ro in RANK_ORDER_CASES:
        out = expr.split("[", 1)[0].strip()
        base = "einsum:\n  declaration:\n" + "".join("    %s: %s\n" % kv for kv in decl.items())
        base += "  expressions:\n    - %s\n" % expr
        base += "mapping:\n  rank-order:\n" + "".join("    %s: %s\n" % kv for kv in ro.items())
        texts = []
        for explicit in (False, True):
            y_ = base + ("  loop-order:\n    %s: [%s]\n" % (out, ", ".join(written_ranks(expr))) if explicit else "")
            try:
                texts.append(str(HiFiber(Einsum.from_str(y_), Mapping.from_str(y_))))
            except Exception as e:      # noqa
                texts.append("ERROR %s: %s" % (type(e).__name__, e))
        if texts[0].startswith("ERROR"):
            continue
        ev += 1
        distinct.add(texts[0])
        if texts[0] != texts[1]:
            fails.append({"name": "bounded/omitted-vs-explicit-default",
                          "detail": "%s with rank-order %s: omitted loop order differs from the written default %s"
                                    % (expr, ro, written_ranks(expr)),
                          "witness": {"einsum": expr, "rank_order": ro, "explicit_default_loop_order": written_ranks(expr)}})
    # histories: the default of an Einsum must not depend on what was compiled or configured before it
    # (a) one parsed Mapping with everything omitted, used for two compilations that write a tensor of the same name
    pairs = [(({"A": "[K, M]", "B": "[K, N]", "Z": "[M, N]"}, "Z[m, n] = A[k, m] * B[k, n]"),
              ({"A": "[K, M]", "B": "[K, N]", "Z": "[N, M]"}, "Z[n, m] = B[k, n] * A[k, m]")),
             (({"A": "[K, M]", "Z": "[M]"}, "Z[m] = A[k, m]"), ({"A": "[K, M]", "Z": "[K]"}, "Z[k] = A[k, m]"))]
    for (d1, e1), (d2, e2) in pairs:
        shared = Mapping.from_str("mapping:\n")
        try:
            y1, y2 = yaml_of(d1, e1, {}, False), yaml_of(d2, e2, {}, False)
            str(HiFiber(Einsum.from_str(y1), shared))
            second = str(HiFiber(Einsum.from_str(y2), shared))
            expl = str(HiFiber(Einsum.from_str(y2), Mapping.from_str(yaml_of(d2, e2, {}, True))))
        except Exception as e:      # noqa
            second, expl = "ERROR %s" % e, "ERROR"
        ev += 1
        distinct.add(second)
        if second != expl:
            fails.append({"name": "bounded/omitted-vs-explicit-default",
                          "detail": "%s compiled with a Mapping object that was used before (for %s), everything omitted, differs "
                                    "from its written default %s" % (e2, e1, written_ranks(e2)),
                          "witness": {"first": e1, "second": e2, "explicit_default_loop_order": written_ranks(e2)}})
    # (b) a cascade whose first Einsum has an explicit loop order and whose second Einsum omits it
    casc = [({"A": "[K, M]", "B": "[K, N]", "C": "[M, N]", "T": "[M, N]", "Z": "[M, N]"},
             ["T[m, n] = A[k, m] * B[k, n]", "Z[m, n] = T[m, n] * A[k, m]"], {"T": "[M, K, N]"}),
            ({"A": "[K, M]", "T": "[M]", "Z": "[M]"}, ["T[m] = A[k, m]", "Z[m] = A[k, m] * T[m]"], {"T": "[K, M]"})]
    for decl, exprs, lo in casc:
        base = "einsum:\n  declaration:\n" + "".join("    %s: %s\n" % kv for kv in decl.items())
        base += "  expressions:\n" + "".join("    - %s\n" % e for e in exprs)
        m1 = "mapping:\n  loop-order:\n" + "".join("    %s: %s\n" % kv for kv in lo.items())
        out2 = exprs[1].split("[", 1)[0].strip()
        m2 = m1 + "    %s: [%s]\n" % (out2, ", ".join(written_ranks(exprs[1])))
        try:
            t1 = str(HiFiber(Einsum.from_str(base), Mapping.from_str(base + m1)))
            t2 = str(HiFiber(Einsum.from_str(base), Mapping.from_str(base + m2)))
        except Exception as e:      # noqa
            t1, t2 = "ERROR %s" % e, "ERROR"
        ev += 1
        distinct.add(t1)
        if t1 != t2:
            fails.append({"name": "bounded/omitted-vs-explicit-default",
                          "detail": "cascade %s: the second Einsum's omitted loop order differs from its written default %s "
                                    "when the first has the explicit order %s" % (exprs, written_ranks(exprs[1]), lo),
                          "witness": {"cascade": exprs, "first_loop_order": lo,
                                      "explicit_default_loop_order": written_ranks(exprs[1])}})
    # (c) one output written by two Einsums over different ranks, "no partitioning" spelled as an empty entry for it
    # (d) two Einsums without a reduction whose written-out default loop orders are one list shared through a YAML alias
    hist = [
        ("same output over different ranks, empty partitioning entry",
         {"A": "[M, K]", "B": "[K]", "C": "[M, J]", "D": "[J]", "Z": "[M]"}, ["Z[m] = A[m, k] * B[k]", "Z[m] = C[m, j] * D[j]"],
         "mapping:\n", "mapping:\n  partitioning:\n    Z: {}\n"),
        ("same output over different ranks, blank partitioning entry",
         {"A": "[M, K]", "B": "[K]", "C": "[M, J]", "D": "[J]", "Z": "[M]"}, ["Z[m] = A[m, k] * B[k]", "Z[m] = C[m, j] * D[j]"],
         "mapping:\n", "mapping:\n  partitioning:\n    Z:\n"),
        ("written default loop orders shared through a YAML alias",
         {"A": "[N, M]", "T": "[N, M]", "Z": "[N, M]"}, ["T[n, m] = A[n, m]", "Z[n, m] = T[n, m]"],
         "mapping:\n", "mapping:\n  loop-order:\n    T: &nm [N, M]\n    Z: *nm\n"),
    ]
    for name, decl, exprs, m_omitted, m_explicit in hist:
        base = "einsum:\n  declaration:\n" + "".join("    %s: %s\n" % kv for kv in decl.items())
        base += "  expressions:\n" + "".join("    - %s\n" % e for e in exprs)
        outs = []
        for mm in (m_omitted, m_explicit):
            try:
                outs.append(str(HiFiber(Einsum.from_str(base), Mapping.from_str(base + mm))))
            except Exception as e:      # noqa
                outs.append("ERROR %s: %s" % (type(e).__name__, str(e)[:80]))
        if outs[0].startswith("ERROR"):
            continue
        ev += 1
        distinct.add(outs[0])
        if outs[0] != outs[1]:
            fails.append({"name": "bounded/omitted-vs-explicit-default",
                          "detail": "%s (%s): the omitted mapping differs from the written default: %s" % (name, exprs, outs[1][:80]),
                          "witness": {"case": name, "cascade": exprs, "explicit_mapping": m_explicit}})
    return ev, len(distinct), fails, samples
