"""C16 (compile-time clauses): spacetime display is observation-only and complete at emission level."""
import ast
import itertools
import re
from pyvc import extract
from pyvc.driver import Extra

ID = "C16"
LEVEL = "proof"
SIDECARS = ["contracts.spacetime"]
TARGETS = ["SBlock.__init__", "SBlock.add", "Canvas.__init__", "Canvas.create_canvas", "Canvas.__rel_coord", "Canvas.get_space_tuple",
           "Canvas.get_time_tuple", "Canvas.add_activity", "Canvas.display_canvas", "Graphics.__init__", "Graphics.make_header",
           "Graphics.make_body", "Graphics.make_footer"]
TECHNIQUE = ("contracts on the graphics translators (stamp and access-point shape of every activity, one activity per "
             "make_body, slip counter advanced once: SMT over constructor-term HiFiber nodes) + structural lemmas on "
             "the call sites + bounded relational check on the real compiler: the text compiled with a spacetime "
             "mapping, with the display statements and position enumerations erased, equals the text compiled without it")
EXPLANATION = (
    "Only the emission-level clauses are claimed. Proved for all program / spacetime states on the real functions "
    "(HiFiber nodes as constructor terms): Canvas.__rel_coord gives <rank>_pos for position style and the coordinate "
    "minus the enclosing partition level's coordinate (get_offset) for coordinate style; get_space_tuple / "
    "get_time_tuple have exactly one such component per space / time rank in order; add_activity emits ONE "
    "canvas.addActivity call with one access tuple per displayed tensor, each with one coordinate per rank of "
    "tensor.get_access(), followed by spacetime=(space, time) where time is (timestamps[space] - 1,) under slip; "
    "Graphics.make_body returns nothing without a display, otherwise exactly one activity, preceded under slip by "
    "one `if space in timestamps.keys(): timestamps[space] += 1 else: timestamps[space] = 1` on the same stamp; "
    "make_header creates the canvas (and an empty counter dict under slip). The proofs need the object invariant "
    "graphics.canvas.program is graphics.program, established by the verified constructors. Structural: graphics statements are produced only by "
    "Graphics.make_header/make_body/make_footer, each called from exactly one node kind of the translator (one "
    "make_body per Body node, next to the update). Bounded relational check over an enumerated family (Einsum shapes "
    "x shape partitioning x loop orders x every split of the loop ranks into space and time x position/coordinate "
    "styles x slip): erasing createCanvas/addActivity/displayCanvas/timestamp statements and the `<rank>_pos` "
    "enumerate wrappers from the spacetime program gives exactly the program compiled without spacetime "
    "(observation-only); every update statement is followed by exactly one addActivity and there is no other one; "
    "each displayed tensor's access tuple has one coordinate per rank of the tensor as displayed; every `_pos` "
    "variable read is bound by an enclosing enumerate (closedness, shared with C06). Stamp uniqueness and equality "
    "of computed tensors when the program runs are execution semantics: not applicable.")
TRUSTED = ["the erasure normaliser below", "assumed: Canvas.__build_access returns one Expression per access rank",
           "SpaceTime / Program getters are heap-independent observers while one statement is translated"]
ASSUMPTIONS = ["run-time clauses of C16 (no two activities share a stamp; tensors unchanged) are not applicable",
               "bounded: enumerated family of spacetime mappings"]

EINSUMS = [
    ({"A": "[K, M]", "B": "[K, N]", "Z": "[M, N]"}, "Z[m, n] = A[k, m] * B[k, n]", ["M", "N", "K"]),
    ({"A": "[K, M]", "Z": "[M]"}, "Z[m] = A[k, m]", ["M", "K"]),
    ({"A": "[I, J]", "B": "[I, J]", "Z": "[I, J]"}, "Z[i, j] = A[i, j] + B[i, j]", ["I", "J"]),
]


EXTRA = [
    # (label, declaration, expression, partitioning lines under the output, loop order)
    # flattened inputs (labels starting with "flattened": stamped by position only - a coordinate-style stamp of a
    # flattened rank is the open C06 finding and is not repeated here)
    ("flattened input under an occupancy split", {"A": "[K, M]", "B": "[K, N]", "Z": "[M, N]"}, "Z[m, n] = A[k, m] * B[k, n]",
     ["(M, K): [flatten()]", "MK: [uniform_occupancy(A.4)]"], ["MK1", "MK0", "N"]),
    ("flattened level of a shape split (SIGMA style)", {"A": "[K, M]", "B": "[K, N]", "Z": "[M, N]"}, "Z[m, n] = A[k, m] * B[k, n]",
     ["K: [uniform_shape(4)]", "(M, K0): [flatten()]", "MK0: [uniform_occupancy(A.5)]"], ["K1", "MK01", "MK00", "N"]),
    ("flattened input, unsplit", {"A": "[I, J, K]", "B": "[J]", "Z": "[I]"}, "Z[i] = A[i, j, k] * B[j]",
     ["(I, J): [flatten()]"], ["IJ", "K"]),
    ("occupancy split at the top level", {"A": "[K, M]", "B": "[K, N]", "Z": "[M, N]"}, "Z[m, n] = A[k, m] * B[k, n]",
     ["K: [uniform_occupancy(A.5)]"], ["K1", "K0", "M", "N"]),
    ("index math over a 3-level shape split", {"A": "[K]", "Z": "[M]"}, "Z[m] = A[2 * m]",
     ["M: [uniform_shape(10), uniform_shape(5)]", "K: [follow(M)]"], ["M2", "M1", "M0"]),
    ("shape then occupancy split", {"A": "[K, M]", "B": "[K, N]", "Z": "[M, N]"}, "Z[m, n] = A[k, m] * B[k, n]",
     ["M: [uniform_shape(20), uniform_occupancy(A.5)]"], ["M2", "M1", "M0", "N", "K"]),
    ("two occupancy splits", {"A": "[K, M]", "B": "[K, N]", "Z": "[M, N]"}, "Z[m, n] = A[k, m] * B[k, n]",
     ["K: [uniform_occupancy(B.6), uniform_occupancy(B.3)]"], ["M", "K2", "N", "K1", "K0"]),
    ("convolution", {"I": "[W]", "F": "[S]", "O": "[Q]"}, "O[q] = I[q + s] * F[s]", [], ["Q", "S"]),
    ("tiled convolution", {"I": "[W]", "F": "[S]", "O": "[Q]"}, "O[q] = I[q + s] * F[s]",
     ["Q: [uniform_shape(4)]", "W: [follow(Q)]"], ["Q1", "Q0", "S"]),
]


def _bases():
    """(label, yaml without spacetime, output name, loop order)"""
    out = []
    for decl, expr, ranks in EINSUMS:
        outn = expr.split("[")[0]
        for part in (None, ranks[-1]):
            if part is None:
                lo_sets = [list(ranks), list(reversed(ranks))]
                plines = []
            else:
                lv = [part + "1", part + "0"]
                others = [r for r in ranks if r != part]
                lo_sets = [[lv[0]] + others + [lv[1]], others + lv]
                plines = ["%s: [uniform_shape(4)]" % part]
            for lo in lo_sets:
                out.append((expr, decl, expr, plines, lo))
    for label, decl, expr, plines, lo in EXTRA:
        out.append((label, decl, expr, plines, lo))
    res = []
    for label, decl, expr, plines, lo in out:
        outn = expr.split("[")[0]
        y = "einsum:\n  declaration:\n" + "".join("    %s: %s\n" % kv for kv in decl.items())
        y += "  expressions:\n    - %s\nmapping:\n" % expr
        if plines:
            y += "  partitioning:\n    %s:\n" % outn + "".join("      %s\n" % pl for pl in plines)
        y += "  loop-order:\n    %s: [%s]\n" % (outn, ", ".join(lo))
        res.append((label, y, outn, lo))
    return res


def family(tier):
    out = []
    for label, base, outn, lo in _bases():
        n = len(lo)
        splits = []
        for k in range(0, min(2, n) + 1):
            for space in itertools.combinations(lo, k):
                splits.append(space)
        for si, space in enumerate(splits):
            if tier != "thorough" and si % 2 and len(space) == 2 and len(space) != n:       # (every rank in space: always kept)
                continue
            time_ = [r for r in lo if r not in space]
            for style in (("pos",) if label.startswith("flattened") else ("pos", "coord", "mixed")):
                for slip in (False, True):
                    def st(r, i):
                        s = style if style != "mixed" else ("pos" if i % 2 else "coord")
                        return r if s == "pos" and i % 3 == 0 else r + "." + s
                    y = base + "  spacetime:\n    %s:\n      space: [%s]\n      time: [%s]\n" % (
                        outn, ", ".join(st(r, i) for i, r in enumerate(space)),
                        ", ".join(st(r, i + 1) for i, r in enumerate(time_)))
                    if slip:
                        y += "      opt: slip\n"
                    styles = {}
                    for i, r in enumerate(space):
                        styles[r] = "coord" if st(r, i).endswith(".coord") else "pos"
                    for i, r in enumerate(time_):
                        styles[r] = "coord" if st(r, i + 1).endswith(".coord") else "pos"
                    out.append((base, y, {"einsum": label, "loop_order": lo, "space": list(space), "style": style,
                                          "styles": styles, "slip": slip}))
    return out


GFX = ("canvas = createCanvas(", "timestamps = {}", "canvas.addActivity(", "displayCanvas(canvas)")


def erase(text):
    """remove the display statements and the position enumerations"""
    out = []
    lines = text.split("\n")
    i = 0
    while i < len(lines):
        l = lines[i]
        s = l.strip()
        if s.startswith(GFX):
            i += 1
            continue
        if re.match(r"if \(.*\) in timestamps\.keys\(\):$", s):
            # if ...: timestamps[..] += 1 / else: timestamps[..] = 1
            i += 4
            continue
        m = re.match(r"^(\s*)for (\w+)_pos, \((.*)\) in enumerate\((.*)\):$", l)
        if m:
            l = "%sfor %s in %s:" % (m.group(1), m.group(3), m.group(4))
        out.append(l)
        i += 1
    return "\n".join(out)


def want_component(rank, style, levels):
    """the stamp component of a loop rank: its position variable, or its coordinate relative to the enclosing level"""
    r = rank.lower()
    if style == "pos":
        return r + "_pos"
    m = re.fullmatch(r"([A-Z]+)([0-9]+)", rank)
    if m and (m.group(1) + str(int(m.group(2)) + 1)) in levels:
        return "%s - %s" % (r, (m.group(1) + str(int(m.group(2)) + 1)).lower())
    return r


def stamp_problems(stamp, desc, lines, line):
    probs = []
    space, time_ = stamp.elts
    lo = desc["loop_order"]
    sp = desc["space"]
    tm = [r for r in lo if r not in sp]
    styles = desc["styles"]
    want_space = [want_component(r, styles[r], lo) for r in sp]
    got_space = [ast.unparse(e) for e in space.elts] if isinstance(space, ast.Tuple) else None
    if got_space != want_space:
        probs.append("space stamp is %s, expected %s" % (got_space, want_space))
    if desc["slip"]:
        want_time = [ast.unparse(ast.parse("timestamps[%s] - 1" % ast.unparse(space), mode="eval").body)]
        # the counter of this space stamp is bumped (or started at 1) right before the activity
        a = lines.index(line)
        sp_txt = ast.unparse(space)
        import textwrap
        try:
            got = ast.dump(ast.parse(textwrap.dedent("\n".join(lines[a - 4:a]))))
        except SyntaxError:
            got = None
        exp = ast.dump(ast.parse("if %s in timestamps.keys():\n    timestamps[%s] += 1\nelse:\n    timestamps[%s] = 1\n"
                                 % (sp_txt, sp_txt, sp_txt)))
        if got != exp:
            probs.append("slip: the timestamp of space stamp %s is not advanced once right before the activity" % sp_txt)
    else:
        want_time = [want_component(r, styles[r], lo) for r in tm]
    got_time = [ast.unparse(e) for e in time_.elts] if isinstance(time_, ast.Tuple) else None
    if got_time != want_time:
        probs.append("time stamp is %s, expected %s" % (got_time, want_time))
    # every position variable read is bound by an enclosing enumerate
    ind = len(line) - len(line.lstrip())
    bound = set()
    for l in lines[:lines.index(line)]:
        m = re.match(r"^(\s*)for (\w+_pos), ", l)
        if m and len(m.group(1)) < ind:
            bound.add(m.group(2))
    used = {n.id for n in ast.walk(stamp) if isinstance(n, ast.Name) and n.id.endswith("_pos")}
    if not used <= bound:
        probs.append("position variables %s are read but not bound by an enclosing enumerate" % sorted(used - bound))
    return probs


def _displayed_rank_count(var, lines, decl_ranks):
    """number of ranks of the tensor object bound to `var` when the canvas is created: the rank ids it last received
    (Tensor(...)/swizzleRanks/fromFiber/setRankIds), else - a user-supplied input - its declared ranks"""
    n = None
    for l in lines:
        if "createCanvas(" in l:
            break
        m = re.match(r"\s*%s = .*rank_ids=\[([^\]]*)\]" % re.escape(var), l) or \
            re.match(r"\s*%s\.setRankIds\(rank_ids=\[([^\]]*)\]" % re.escape(var), l)
        if m:
            n = len([x for x in m.group(1).split(",") if x.strip()])
    if n is None:
        n = len(decl_ranks.get(var.split("_", 1)[0], []))
    return n


def check_one(base_yaml, st_yaml, desc):
    from teaal.parse import Einsum, Mapping
    from teaal.trans.hifiber import HiFiber
    try:
        plain = str(HiFiber(Einsum.from_str(base_yaml), Mapping.from_str(base_yaml)))
    except Exception as e:      # noqa
        return "skip", "plain compilation raises %s" % type(e).__name__, None
    try:
        disp = str(HiFiber(Einsum.from_str(st_yaml), Mapping.from_str(st_yaml)))
    except ValueError as e:
        return "skip", "spacetime mapping rejected: %s" % str(e)[:80], None
    probs = []
    if erase(disp) != erase(plain):
        probs.append("erasing the display statements does not give the program compiled without spacetime")
    try:
        from props import C06
        user, _outs = C06.user_names(st_yaml)
        cl = C06.closed(disp, user)
        if cl and not C06.closed(plain, user):
            probs.append("with the display the program is no longer closed: " + cl[0])
    except Exception:      # noqa
        pass
    lines = disp.split("\n")
    upd = [i for i, l in enumerate(lines) if re.search(r"_ref (\+|<<)= ", l) or (re.search(r"_ref = ", l) and ".getPayloadRef(" not in l)]
    act = [i for i, l in enumerate(lines) if "canvas.addActivity(" in l]
    if len(upd) != len(act):
        probs.append("%d update statements but %d addActivity statements" % (len(upd), len(act)))
    for u, a in zip(upd, act):
        between = [l.strip() for l in lines[u + 1:a]]
        if not (a > u and all(re.match(r"(if \(.*\) in timestamps\.keys\(\):|timestamps\[.*\] (\+)?= 1|else:)$", b) for b in between)
                and len(lines[u]) - len(lines[u].lstrip()) == len(lines[a]) - len(lines[a].lstrip())):
            probs.append("addActivity at line %d does not directly follow the update at line %d" % (a + 1, u + 1))
    # arity of the access tuples
    m = re.search(r"canvas = createCanvas\((.*)\)", disp)
    decl_ranks = Einsum.from_str(base_yaml).get_declaration()
    if m:
        names = [x.strip() for x in m.group(1).split(",")]
        for l in (lines[i] for i in act):
            call = ast.parse(l.strip()).body[0].value
            tuples = call.args
            if len(tuples) != len(names):
                probs.append("addActivity has %d access tuples for %d displayed tensors" % (len(tuples), len(names)))
                continue
            for nm, t in zip(names, tuples):
                nr = _displayed_rank_count(nm, lines, decl_ranks)
                arity = len(t.elts) if isinstance(t, ast.Tuple) else 1
                if arity != nr:
                    probs.append("%s is displayed with %d coordinates for %d ranks" % (nm, arity, nr))
            kw = {k.arg: k.value for k in call.keywords}
            if "spacetime" not in kw or not isinstance(kw["spacetime"], ast.Tuple) or len(kw["spacetime"].elts) != 2:
                probs.append("addActivity without a (space, time) stamp")
                continue
            probs += stamp_problems(kw["spacetime"], desc, lines, l)
    elif act:
        probs.append("addActivity without createCanvas")
    return ("FAIL" if probs else "ok"), (probs[0] if probs else ""), disp


def bounded(uni, tier, seed):
    ev, fails, samples, distinct, skipped = 0, [], [], set(), 0
    fam = family(tier)
    for idx, (base, y, desc) in enumerate(fam):
        if tier != "thorough" and (idx + seed) % 3:
            continue
        st, detail, text = check_one(base, y, desc)
        if st == "skip":
            skipped += 1
            continue
        ev += 1
        distinct.add(text)
        if len(samples) < 3:
            samples.append(desc)
        if st == "FAIL":
            fails.append({"name": "bounded/spacetime-erasure", "detail": "%s: %s" % (desc, detail),
                          "witness": dict(desc, yaml=y, what=detail)})
            if len(fails) > 4:
                break
    return {"evaluations": ev, "distinct_nontrivial": len(distinct), "failures": fails, "samples": samples,
            "skipped_rejected_mappings": skipped,
            "rule": "3 Einsum shapes x (no partitioning | shape split of the last rank) x 2 loop orders x every split with "
                    "<= 2 space ranks x pos/coord/mixed styles x slip on/off (quick: every 3rd): erase display statements "
                    "and `_pos` enumerations and compare with the compilation without spacetime; one addActivity right "
                    "after each update; one coordinate per displayed rank (bounded)"}


def extra(uni, tier, seed):
    out = []
    # deepcopy is specified as observer-preserving: no teaal class customises copying or pickling
    bad = []
    for rel in extract.all_repo_modules():
        for n in ast.walk(extract.module(rel).tree):
            if isinstance(n, ast.FunctionDef) and n.name in ("__deepcopy__", "__copy__", "__reduce__", "__reduce_ex__",
                                                             "__getstate__", "__setstate__", "__getnewargs__"):
                bad.append("%s:%d %s" % (rel, n.lineno, n.name))
    out.append(Extra("structural/no teaal class customises copying (deepcopy preserves every observer)", not bad, "; ".join(bad[:4])))
    tn = ast.unparse(extract.module("teaal/trans/hifiber.py").func("HiFiber.__trans_nodes"))
    ok = tn.count("self.graphics.make_body()") == 1 and tn.count("self.graphics.make_header()") == 1 \
        and "code.add(self.eqn.make_update())\n" in tn and tn.index("self.eqn.make_update()") < tn.index("self.graphics.make_body()")
    out.append(Extra("structural/one make_body per Body node, right after the update; one make_header per Graphics node", ok, ""))
    ft = ast.unparse(extract.module("teaal/trans/footer.py").func("Footer.make_footer"))
    out.append(Extra("structural/the display is shown once, in the footer", ft.count("graphics.make_footer()") == 1, ""))
    # the display API is only emitted by the graphics translators
    bad = []
    for rel in extract.all_repo_modules("teaal/trans"):
        src = extract.module(rel).source
        for api in ("createCanvas", "addActivity", "displayCanvas"):
            if api in src and not rel.endswith(("canvas.py",)):
                bad.append((rel, api))
    out.append(Extra("structural/canvas API calls are emitted only by trans/canvas.py", not bad, str(bad)))
    # the same predicate decides wrapping in enumerate and destructuring the position
    eq = extract.module("teaal/trans/equation.py")
    a = ast.unparse(eq.func("Equation.__add_enumerate"))
    p = ast.unparse(eq.func("Equation.make_payload"))
    out.append(Extra("structural/enumerate wrapper and position destructuring are guarded by __need_enumerate(rank)",
                     "if self.__need_enumerate(rank):" in a and "self.__need_enumerate(rank)" in p, ""))
    return out


def refute(uni, ob, replay_dir):
    return refute_extra(uni, None)


def refute_extra(uni, e):
    b = bounded(uni, "thorough", 0)
    if b["failures"]:
        return dict(b["failures"][0]["witness"], how="real compiler with and without the spacetime mapping")
    return None
