"""C10: statement order respects every data and control dependence."""
import ast
import importlib
import time
from pyvc import structural, extract
from pyvc.driver import Extra
from props import common

ID = "C10"
LEVEL = "proof"
SIDECARS = ["contracts.flow"]
TARGETS = ["FlowGraph.__sort", "FlowGraph.__hoist", "FlowGraph.__build_loop_nest", "FlowGraph.__build_project_interval",
           "FlowGraph.__build_dyn_part", "FlowGraph.__connect_dyn_part", "FlowGraph.__build_output", "FlowGraph.__build_static_part",
           "FlowGraph.__build_swizzle_root_fiber", "FlowGraph.__build_fiber_nodes", "HiFiber.__trans_nodes"]
EXPLANATION = (
    "Contracts on the real functions: __sort yields a topological order (assumed networkx contract); __hoist "
    "preserves 'no edge from a later to an earlier position' for every graph and every initial order (inner-loop "
    "invariant: the loop node sits at `loop`, every node between it and the cursor is a descendant of it), so a "
    "statement is never moved across one it depends on and only non-descendants are moved above a loop; "
    "__build_loop_nest adds the chain StartLoop, Loop(r1..rn), Body, EndLoop(rn..r1), Footer as edges; "
    "__trans_nodes consumes Loop/EndLoop brackets so that each recursive call returns just past the matching "
    "EndLoop (prefix-depth contract over the base list). __hoist also keeps the list a rearrangement of the entry "
    "list (ghost map of entry positions, injective). That list.index finds each loop node is assumed (it follows from "
    "the caller putting every loop node in the list and the rearrangement invariant; not an SMT obligation); that the "
    "graph has an edge for every dependence (graph construction) is served by a bounded def-use companion, except for "
    "one builder brought under contract as a start: __build_project_interval adds an edge from a level-1 fiber of EVERY "
    "tensor co-iterated at the outer level to the eager-input node, and the three interval edges (the sympy computation "
    "of which rank of the tensor is meant is abstracted); __build_dyn_part (one rank) wires, for the rank and each of its "
    "intermediates, RankNode -> PartNode -> RankNode of every level, and an edge from the fiber of the leader OF THAT "
    "LEVEL to the PartNode unless the tensor leads it itself; __connect_dyn_part: FiberNode(fiber on entry) -> FromFiberNode -> "
    "PartNode; __build_output: Output -> TensorNode -> GetRootNode of the output; __build_static_part: the source rank (or "
    "the flattening swizzle) feeds the PartNode, every resulting rank and the Graphics node come after it; "
    "__build_swizzle_root_fiber: TensorNode -> SwizzleNode(loop-order) -> GetRootNode -> FiberNode, every current rank before "
    "the swizzle, a static swizzle before the Graphics node; __build_fiber_nodes: for the loop rank r the iteration graph "
    "reports - FiberNode(fiber before) -> LoopNode(r) for EVERY co-iterated tensor, LoopNode(r) -> FiberNode(fiber inside) for "
    "every tensor handed back, and for every discordant access: its fiber -> GetPayloadNode, LoopNode(final id of EVERY rank of "
    "the access) -> GetPayloadNode, GetPayloadNode -> the fiber it yields (its first loop, which calls __connect_dyn_part, is "
    "abstracted as an arbitrary change of the edge set).")
TRUSTED = ["networkx contracts (topological_sort, descendants, add_edge) as stated in contracts/flow.py",
           "meta-lemma: chain edges + topological order => Loop(r1) < ... < Loop(rn) < Body < EndLoop(rn) < ... < EndLoop(r1)",
           "list.index(LoopNode(rank)) finds the node (meta-argument from the proved rearrangement invariant and the caller's "
           "obligation that every loop node is listed; also checked on real graphs, bounded)"]
_mods = None


def _sidecars():
    global _mods
    if _mods is None:
        _mods = [importlib.import_module(m) for m in SIDECARS]
    return _mods


def extra(uni, tier, seed):
    out = []
    m = extract.module("teaal/ir/flow_graph.py")
    init = m.func("FlowGraph.__init__")
    calls = [ast.unparse(s) for s in extract.strip_doc(init.body)]
    want = ["self._FlowGraph__build()", "self.__build()"]
    seq = [c for c in calls if "__build()" in c or "__prune()" in c or "__sort()" in c or "__hoist()" in c]
    ok = [("__build" in seq[0]), ("__prune" in seq[1]), ("__sort" in seq[2]), ("__hoist" in seq[3])] if len(seq) == 4 else [False]
    out.append(Extra("structural/FlowGraph.__init__ runs build, prune, sort, then hoist", all(ok), str(seq)))
    gs = m.func("FlowGraph.get_sorted")
    out.append(Extra("structural/get_sorted returns self.sorted",
                     ast.unparse(extract.strip_doc(gs.body)[0]) == "return self.sorted", ""))
    # __prune: edge contraction (every in-neighbour connected to every out-neighbour before the node is removed)
    pr = m.func("FlowGraph.__prune")
    src = ast.unparse(pr)
    shape = ("for in_, _ in self.graph.in_edges(node):" in src and "for _, out in self.graph.out_edges(node):" in src
             and "self.graph.add_edge(in_, out)" in src and "self.graph.remove_node(node)" in src
             and src.index("self.graph.add_edge(in_, out)") < src.index("self.graph.remove_node(node)"))
    out.append(Extra("structural/__prune contracts edges before removing a node", shape, ""))
    # the nodes handed to __trans_nodes are the hoisted order
    tr = extract.module("teaal/trans/hifiber.py").func("HiFiber.__translate")
    tsrc = ast.unparse(tr)
    uses = [n_ for n_ in ast.walk(tr) if isinstance(n_, ast.Name) and n_.id == "nodes"]
    ok = "nodes = flow_graph.get_sorted()" in tsrc and "self.__trans_nodes(nodes)" in tsrc and len(uses) == 2
    out.append(Extra("structural/__translate hands flow_graph.get_sorted() to __trans_nodes untouched (the list is bound once and "
                     "used once)", ok, "%d occurrences of `nodes`" % len(uses)))
    return out


def refute(uni, ob, replay_dir):
    return common.native_refute(uni, _sidecars(), ob, replay_dir, limit=600)


def _real_graphs():
    """real flow graphs of the repository's integration specs: topological, nested, same nodes as without hoist"""
    import glob
    import networkx as nx
    from teaal.parse import Einsum, Mapping
    from teaal.ir.program import Program
    from teaal.ir.flow_graph import FlowGraph
    from teaal.ir.flow_nodes import LoopNode, EndLoopNode, OtherNode
    from pyvc.extract import REPO
    n, fails, samples = 0, [], []
    for path in sorted(glob.glob(REPO + "/tests/integration/*.yaml")):
        try:
            es, ms = Einsum.from_file(path), Mapping.from_file(path)
            prog = Program(es, ms)
        except Exception:      # noqa
            continue
        for i in range(len(es.get_expressions())):
            try:
                prog.add_einsum(i)
                g0 = FlowGraph(prog, None, [])
                s0 = list(g0.get_sorted())
                prog.reset()
                prog.add_einsum(i)
                g1 = FlowGraph(prog, None, ["hoist"])
                s1 = g1.get_sorted()
                ranks = prog.get_loop_order().get_ranks()
                prog.reset()
            except Exception:      # noqa
                prog.reset()
                continue
            n += 1
            pos = {repr(x): k for k, x in enumerate(s1)}
            gr = g1.get_graph()
            bad = [(repr(a), repr(b)) for a, b in gr.edges() if pos[repr(a)] >= pos[repr(b)]]
            chain = [LoopNode(r) for r in ranks] + [OtherNode("Body")] + [EndLoopNode(r) for r in reversed(ranks)]
            cpos = [pos[repr(x)] for x in chain]
            nested = cpos == sorted(cpos)
            perm = sorted(map(repr, s0)) == sorted(map(repr, s1))
            if bad or not nested or not perm:
                fails.append({"name": "bounded/real-graph", "detail": "%s einsum %d: backward edges %s nested=%s permutation=%s"
                              % (path, i, bad[:2], nested, perm), "witness": {"spec": path, "einsum": i}})
            if len(samples) < 3:
                samples.append({"spec": path.rsplit("/", 1)[1], "einsum": i, "nodes": len(s1)})
    return n, fails, samples


def _conv2d_family(tier, seed):
    """a 2-D convolution with BOTH projected ranks partitioned (shape or occupancy): the eager inputs of each outer loop
    must be taken from the fiber of THAT rank; every loop order that keeps each rank's levels outermost-first"""
    import itertools
    import random
    out = []
    ranks = ["P1", "Q1", "R", "S", "P0", "Q0"]
    orders = [o for o in itertools.permutations(ranks)
              if o.index("P1") < o.index("P0") and o.index("Q1") < o.index("Q0")]
    if tier != "thorough":
        orders = random.Random(seed).sample(orders, 45) + [tuple(ranks)]
    for pp, qq in (("uniform_shape(8)", "uniform_shape(10)"), ("uniform_occupancy(I.8)", "uniform_shape(10)"),
                   ("uniform_shape(8)", "uniform_occupancy(I.10)")):
        for o in orders:
            y = ("einsum:\n  declaration:\n    F: [R, S]\n    I: [H, W]\n    O: [P, Q]\n  expressions:\n"
                 "    - O[p, q] = I[p + r, q + s] * F[r, s]\nmapping:\n  partitioning:\n    O:\n      P: [%s]\n"
                 "      H: [follow(P)]\n      Q: [%s]\n      W: [follow(Q)]\n  loop-order:\n    O: [%s]\n" % (pp, qq, ", ".join(o)))
            out.append(("conv2d %s %s %s" % (pp, qq, "".join(o)), y))
    return out


def _eager_inputs(tier, seed):
    """the one statement sequence of __build_project_interval that its contract abstracts (which rank of a tensor the loop
    rank projects onto - sympy work) against an independent reading of the Einsum's text: in the real flow graph of the
    2-D convolution family, the eager-input node of loop rank X1 has an edge from the fiber <t>_<r>1 of every tensor t it
    lists, where r is the declared rank of t whose index expression mentions x"""
    import re
    from teaal.parse import Einsum, Mapping
    from teaal.ir.program import Program
    from teaal.ir.flow_graph import FlowGraph
    from teaal.ir.flow_nodes import EagerInputNode, FiberNode
    n, fails = 0, []
    for name, y in _conv2d_family(tier, seed):
        try:
            es, ms = Einsum.from_str(y), Mapping.from_str(y)
            prog = Program(es, ms)
            prog.add_einsum(0)
            FlowGraph(prog, None, ["hoist"])     # (only specifications the compiler accepts)
            prog.reset()
            prog.add_einsum(0)
            # the graph as built, before pass-through nodes (fibers among them) are pruned
            fg = object.__new__(FlowGraph)
            fg.program, fg.metrics = prog, None
            fg._FlowGraph__build()
            gr = fg.graph
        except Exception:      # noqa
            continue
        decl = es.get_declaration()
        text = y.split("    - ", 1)[1].split("\n", 1)[0]
        acc = {t: [x.strip() for x in idx.split(",")] for t, idx in re.findall(r"([A-Z][A-Za-z0-9]*)\[(.*?)\]", text)}
        for node in gr.nodes():
            if not isinstance(node, EagerInputNode):
                continue
            var = node.get_rank()[:-1].lower()
            for t in node.get_tensors():
                which = [decl[t][i] for i, ix in enumerate(acc[t]) if re.search(r"\b%s\b" % var, ix)]
                n += 1
                if len(which) != 1:
                    continue
                fiber = FiberNode(t.lower() + "_" + which[0].lower() + "1")
                if not gr.has_edge(fiber, node):
                    fails.append({"name": "bounded/eager-input-depends-on-the-projected-fiber",
                                  "detail": "%s: no edge %r -> %r" % (name, fiber, node), "witness": {"spec": name, "yaml": y}})
    return n, fails[:4]


def _def_use(tier, seed):
    """the dependences that matter in the end are those of the emitted statements: every name a statement reads is
    bound by a statement placed before it on every path (definite-assignment analysis of props/C06.py), over a family
    built to stress placement: flattening with occupancy splits underneath, discordant accesses, dynamic partitioning
    below them, index math next to a second input on the same rank - every loop order that keeps levels outermost-first"""
    import glob
    from pyvc.extract import REPO
    from props import hoist_family, C06
    from teaal.parse import Einsum, Mapping
    from teaal.trans.hifiber import HiFiber
    fam = hoist_family.specs(tier, seed)
    for path in sorted(glob.glob(REPO + "/tests/integration/*.yaml")):
        fam.append((path.rsplit("/", 1)[1], open(path).read()))
    fam += _conv2d_family(tier, seed)
    # chains of discordant accesses: a tensor that owns one rank of each of two (three) separate flattenings without being
    # flattened itself is read with getPayload twice (three times) in a row, each access inside the loop that binds its coordinate
    for decl, expr, flat, orders in (
            ("A: [J, K]\n    T: [M, P]\n    B: [K, M, N]\n    Z: [M, N]", "Z[m, n] = A[j, k] * T[m, p] * B[k, m, n]",
             ["(J, K)", "(M, P)"], (["JK", "MP", "N"], ["MP", "JK", "N"], ["JK", "N", "MP"])),
            ("A: [J, K]\n    T: [M, P]\n    U: [N, Q]\n    B: [K, M, N]\n    Z: [M, N]",
             "Z[m, n] = A[j, k] * T[m, p] * U[n, q] * B[k, m, n]", ["(J, K)", "(M, P)", "(N, Q)"],
             (["JK", "MP", "NQ"], ["NQ", "JK", "MP"]))):
        for o in orders:
            y = ("einsum:\n  declaration:\n    %s\n  expressions:\n    - %s\nmapping:\n  partitioning:\n    Z:\n%s"
                 "  loop-order:\n    Z: [%s]\n" % (decl, expr, "".join("      %s: [flatten()]\n" % f for f in flat), ", ".join(o)))
            fam.append(("discord chain " + " ".join(o), y))
    n, fails = 0, []
    # metrics mode as well (header / footer nodes of eager bindings are placed by the same machinery): the repository's
    # accelerator specifications and their single-point binding-style variants
    for name, y in common.accelerator_variants(tier):
        fam.append(("[metrics] " + name, y))
    for name, y in fam:
        try:
            if name.startswith("[metrics] "):
                text = str(common.compile_full(y))
            else:
                text = str(HiFiber(Einsum.from_str(y), Mapping.from_str(y)))
            user, _ = C06.user_names(y)
        except Exception:      # noqa
            continue
        n += 1
        probs = C06.closed(text, user)
        if probs:
            fails.append({"name": "bounded/statement-order-respects-def-use",
                          "detail": "%s: %s" % (name[:140], probs[0]),
                          "witness": {"spec": name, "yaml": y[:1500], "problems": probs[:4]}})
    return n, fails[:6]


def bounded(uni, tier, seed):
    n, fails, samples = _real_graphs()
    n2, fails2 = _def_use(tier, seed)
    n3, fails3 = _eager_inputs(tier, seed)
    n, fails = n + n2 + n3, fails + fails2 + fails3
    ev, f2, per = (0, [], {})
    if tier == "thorough":
        ev, f2, per = common.native_sweep(uni, _sidecars(), ["FlowGraph.__hoist"], limit=400)
    return {"evaluations": n + ev, "distinct_nontrivial": n + ev, "failures": fails + f2,
            "rule": "every Einsum of every tests/integration/*.yaml: real FlowGraph with and without hoisting - order "
                    "topological w.r.t. the real graph, loop brackets nested in loop order, same node multiset; the emitted "
                    "statements of the placement family (props/hoist_family.py, every level-respecting loop order) "
                    "of chains of discordant accesses (one tensor across two / three separate flattenings), of a 2-D convolution with both projected ranks partitioned (every level-respecting loop order; quick: 46 of 180), "
                    "of the integration specs and (metrics mode) of the repository's accelerator specifications with their "
                    "binding-style variants read only names bound earlier on every path; in the real graphs of the 2-D convolution family the "
                    "eager-input node hangs below the fiber of the rank an independent reading of the Einsum text says it projects; "
                    "thorough adds random small DAGs fed to the real __hoist under the sidecar contract (bounded)",
            "samples": samples}
