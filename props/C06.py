"""C06: every emitted program is valid, closed Python (bounded stand-in; the parse half also follows from C09)."""
import ast
import builtins
import glob
import os
import re
import subprocess
import sys
from pyvc.driver import Extra
from props import common

ID = "C06"
LEVEL = "exploration"
SIDECARS = ["contracts.intervals"]
TARGETS = ["TransEquation.make_eager_inputs", "TransEquation.make_interval", "SBlock.__init__", "SBlock.add"]
TECHNIQUE = ("bounded run-time contract on the real entry point: ast.parse + flow-sensitive definite-assignment analysis "
             "of the emitted text against the user-supplied name set derived from the specification alone; def/use summaries "
             "(SMT) of the two translator functions that bind and read the interval variables of a projected rank")
EXPLANATION = (
    "Proved (SMT, contracts/intervals.py): Equation.make_eager_inputs(rank1, ...) binds inputs_<rank1>; "
    "Equation.make_interval(rank0) binds <rank0>_start and <rank0>_end on both branches of both conditionals and reads "
    "only <root>1_pos, <root>1, inputs_<root>1 (the very name the former binds) and the extent <ROOT>. These are def/use "
    "summaries of two translators; the rest is bounded. "
    "Closedness of the whole emitted text depends on the agreement between the flow-graph builder's simulation of "
    "tensor state and the translators' re-simulation over the hoisted node order: not brought under contract. The "
    "contract on str(HiFiber(...)) is therefore checked at run time over an enumerated family (integration "
    "specifications in every mode they support, the C19 and cascade families, the harvested accelerator "
    "specifications; thorough: the same under several PYTHONHASHSEED values): the text parses; every name read is "
    "definitely assigned on all paths (loops may run zero times, branches are intersected) or is supplied by the "
    "user according to the specification alone (input tensors <Name>_<RankOrder> that no Einsum produces, rank "
    "extents and partition-level extents, scalar operands, symbolic partition sizes, the HiFiber API); loop "
    "variables are not read after their loop. Proved elsewhere and used here: printed text parses to the built tree "
    "(C09), statements are ordered after what they depend on (C10), temporaries are numbered monotonically (C05), "
    "bound names spell their rank ids (C07).")
TRUSTED = ["the independent definite-assignment analysis below"]
ASSUMPTIONS = ["bounded: enumerated specification family; exhaustive only for that family"]

API = {"Tensor", "Fiber", "Metrics", "Traffic", "Format", "Compute", "createCanvas", "displayCanvas", "addActivity",
       "SkipAheadIntersector", "TwoFingerIntersector", "LeaderFollowerIntersector", "BinarySearchIntersector"}
# (`canvas`, `timestamps` and `metrics` are bound by the emitted program itself: they are not API names)


def user_names(txt):
    """names the user is expected to supply, from the specification text alone"""
    from teaal.parse import Einsum, Mapping
    es, ms = Einsum.from_str(txt), Mapping.from_str(txt)
    decl = es.get_declaration()
    ro = ms.get_rank_orders()
    outs = set()
    scalars = set()
    for e in es.get_expressions():
        outs.add(str(next(e.find_data("output")).children[0]))
        for v in e.find_data("var"):
            scalars.add(str(v.children[0]))
    names = set(API) | scalars
    ranks = set()
    for t, rs in decl.items():
        ranks.update(rs)
        if t not in outs:
            names.add(t + "_" + "".join(ro.get(t, rs)))
    names |= ranks
    # partition-level extents (K0, K1, ...), flattened rank names and symbolic sizes named in the mapping
    part = ms.get_partitioning()
    for out, spec in part.items():
        for ranks_tree, directives in spec.items():
            rs = [str(c) for c in ranks_tree.children]
            for r in rs:
                for k in range(0, len(directives) + 2):
                    names.add("%s%d" % (r, k))
            if len(rs) > 1:
                names.add("".join(rs))
            for d in directives:
                for sz in d.find_data("str_sz"):
                    names.add(str(sz.children[0]))
                for sz in d.scan_values(lambda v: True):
                    if re.fullmatch(r"[A-Za-z_]\w*", str(sz)) and not str(sz).islower():
                        pass
    return names, outs


class Scope:
    def __init__(self, user):
        self.user = user
        self.problems = []
        self.dead = {}        # loop variable -> description, once its loop has ended

    def read(self, name, defined, node):
        if name in defined:
            if name in self.dead and self.dead[name]:
                self.problems.append("loop variable %s read after its loop (line %d)" % (name, node.lineno))
            return
        if name in self.user or hasattr(builtins, name):
            return
        self.problems.append("name %s read at line %d is not bound on every path and not user-supplied" % (name, node.lineno))

    def expr(self, e, defined):
        if e is None:
            return
        if isinstance(e, ast.Name):
            if isinstance(e.ctx, ast.Load):
                self.read(e.id, defined, e)
            return
        if isinstance(e, ast.Lambda):
            inner = set(defined) | {a.arg for a in e.args.args}
            self.expr(e.body, inner)
            return
        if isinstance(e, (ast.ListComp, ast.SetComp, ast.GeneratorExp, ast.DictComp)):
            inner = set(defined)
            for g in e.generators:
                self.expr(g.iter, inner)
                inner |= {n.id for n in ast.walk(g.target) if isinstance(n, ast.Name)}
                for c in g.ifs:
                    self.expr(c, inner)
            if isinstance(e, ast.DictComp):
                self.expr(e.key, inner)
                self.expr(e.value, inner)
            else:
                self.expr(e.elt, inner)
            return
        for ch in ast.iter_child_nodes(e):
            if isinstance(ch, ast.expr):
                self.expr(ch, defined)
            elif isinstance(ch, ast.keyword):
                self.expr(ch.value, defined)

    def targets(self, t):
        return {n.id for n in ast.walk(t) if isinstance(n, ast.Name) and isinstance(n.ctx, ast.Store)}

    def define(self, names, defined):
        for n in names:
            self.dead[n] = False
        return defined | names

    def block(self, stmts, defined):
        for s in stmts:
            defined = self.stmt(s, defined)
        return defined

    def stmt(self, s, defined):
        if isinstance(s, ast.Assign):
            self.expr(s.value, defined)
            for t in s.targets:
                for n in ast.walk(t):
                    if isinstance(n, (ast.Subscript, ast.Attribute)):
                        self.expr(n.value, defined)
                        if isinstance(n, ast.Subscript):
                            self.expr(n.slice, defined)
                defined = self.define(self.targets(t), defined)
            return defined
        if isinstance(s, ast.AugAssign):
            self.expr(s.value, defined)
            if isinstance(s.target, ast.Name):
                self.read(s.target.id, defined, s)
            else:
                self.expr(s.target.value, defined)
                if isinstance(s.target, ast.Subscript):
                    self.expr(s.target.slice, defined)
            return defined
        if isinstance(s, ast.Expr):
            self.expr(s.value, defined)
            return defined
        if isinstance(s, ast.For):
            self.expr(s.iter, defined)
            tv = self.targets(s.target)
            inner = self.define(tv, set(defined))
            self.block(s.body, inner)
            # the loop may run zero times: nothing it binds is definitely assigned afterwards;
            # its own variables must not be read after it
            after = set(defined)
            for v in tv:
                if v not in defined:
                    self.dead[v] = True
            return after
        if isinstance(s, ast.If):
            self.expr(s.test, defined)
            a = self.block(s.body, set(defined))
            b = self.block(s.orelse, set(defined)) if s.orelse else set(defined)
            return a & b
        if isinstance(s, ast.FunctionDef):
            inner = set(defined) | {a.arg for a in s.args.args} | {s.name}
            self.block(s.body, inner)
            return self.define({s.name}, defined)
        if isinstance(s, ast.Return):
            self.expr(s.value, defined)
            return defined
        if isinstance(s, (ast.Pass, ast.Import, ast.ImportFrom)):
            return defined
        self.problems.append("unexpected statement %s at line %d" % (type(s).__name__, s.lineno))
        return defined


def closed(text, user):
    try:
        tree = ast.parse(text)
    except SyntaxError as e:
        return ["emitted text is not valid Python: %s" % e]
    sc = Scope(user)
    sc.block(tree.body, set())
    return sc.problems


def _family(tier):
    """(name, mode, yaml)"""
    from pyvc.extract import REPO
    from props import defaults_family, cascade
    out = []
    for path in sorted(glob.glob(REPO + "/tests/integration/*.yaml")):
        out.append((path.rsplit("/", 1)[1], "plain", open(path).read()))
    for decl, expr, parts in defaults_family.SPECS:
        for part in parts:
            out.append((expr + str(part), "plain", defaults_family.yaml_of(decl, expr, part, False)))
    n = 0
    for ro in cascade.RANK_ORDERS:
        for combo in cascade.cascades(2):
            n += 1
            if tier != "thorough" and n % 4:
                continue
            out.append(("cascade %s %s" % (combo, ro), "plain", cascade.build_yaml(combo, ro)))
    for name, txt in common.accelerator_variants(tier):
        out.append((name, "metrics", txt))
    from props import indexmath_family
    out += indexmath_family.specs(tier)
    out.append(("one intersector bound to two ranks", "metrics", SHARED_INTERSECTOR))
    from props import hoist_family
    out += [(n_, "plain", y_) for n_, y_ in hoist_family.specs(tier, only_well_ordered=False)]
    # generated accelerator family (metrics mode), display family of C16 (spacetime mode), hand-written cascades of C05
    from props import accel_family, C16
    out += [(n_, "metrics", y_) for n_, y_ in accel_family.specs(tier)]
    fam16 = C16.family(tier)
    out += [("display %s" % (meta,), "plain", y_) for i_, (_b, y_, meta) in enumerate(fam16)
            if tier == "thorough" or i_ % 2 == 0 or (meta["slip"] and len(meta["space"]) == len(meta["loop_order"]))]
    out += [(n_, "plain", y_) for n_, y_ in cascade.EXTRA_CASCADES]
    out.append(("cascade whose second Einsum alone is displayed with slip", "plain", SLIP_SECOND))
    return out


SLIP_SECOND = """
einsum:
  declaration:
    A: [K, M]
    B: [K, N]
    T: [M, N]
    Z: [M, N]
  expressions:
    - T[m, n] = A[k, m] * B[k, n]
    - Z[m, n] = T[m, n] * A[k, m]
mapping:
  loop-order:
    T: [K, M, N]
    Z: [K, M, N]
  spacetime:
    T:
      space: [M]
      time: [K, N]
    Z:
      space: [M]
      time: [K, N]
      opt: slip
"""


SHARED_INTERSECTOR = """
einsum:
  declaration:
    Z: [I]
    A: [I, J, K]
    B: [I, J, K]
  expressions:
  - Z[i] = A[i, j, k] * B[i, j, k]
mapping:
  loop-order:
    Z: [I, J, K]
architecture:
  acc:
  - name: System
    attributes:
      clock_frequency: 1000
    local:
    - name: Isect
      class: Intersector
      attributes:
        type: two-finger
    - name: Skip
      class: Intersector
      attributes:
        type: skip-ahead
bindings:
  Z:
  - config: acc
    prefix: tmp/shared
  - component: Isect
    bindings:
    - rank: J
    - rank: K
  - component: Skip
    bindings:
    - rank: I
"""


def check_family(tier, limit=None):
    from teaal.parse import Einsum, Mapping
    from teaal.trans.hifiber import HiFiber
    ev, fails, samples, distinct = 0, [], [], set()
    for name, mode, y in _family(tier):
        try:
            if mode == "metrics":
                text = str(common.compile_full(y))
            else:      # plain, or with the spacetime section the specification carries
                text = str(HiFiber(Einsum.from_str(y), Mapping.from_str(y)))
            user, outs = user_names(y)
        except Exception:      # noqa
            continue
        ev += 1
        distinct.add(text)
        probs = closed(text, user)
        if len(samples) < 3:
            samples.append({"spec": name[:80], "mode": mode, "lines": text.count("\n") + 1})
        if probs:
            # one failure per distinct cause, so that a listed finding never hides a different problem of the same program
            by_cause = {}
            for pr in probs:
                by_cause.setdefault(cause_of(pr, text, y), pr)
            for cause, pr in by_cause.items():
                fails.append({"name": "bounded/closed-python",
                              "detail": "%s [%s]: %s%s" % (name[:110], mode, pr, (" cause=" + cause) if cause else ""),
                              "witness": {"spec": name, "mode": mode, "yaml": y[:1500], "problems": probs[:5]}})
    return ev, len(distinct), fails, samples


def cause_of(problem, text, y):
    """classification of a failure, used only to match entries of known_findings.json precisely"""
    m = re.match(r"name (\w+) read at line (\d+) is not bound", problem)
    if not m:
        return ""
    if y.startswith("# loop order puts a partition level above an outer level of the same rank"):
        return "partition-levels-looped-inner-first"
    var, line = m.group(1), text.split("\n")[int(m.group(2)) - 1]
    flattened = {"".join(x.strip() for x in t.split(",")) for t in re.findall(r"\(([A-Z][A-Z0-9, ]*)\): \[flatten\(\)\]", y)}
    root = re.sub(r"[0-9]+$", "", var.upper())
    if ("canvas.addActivity(" in line or "timestamps" in line) and root in flattened \
            and re.search(r"\b%s[0-9]*\.coord\b" % root, y):
        return "coordinate-style-stamp-of-a-flattened-rank"
    return ""


def bounded(uni, tier, seed):
    ev, dist, fails, samples = check_family(tier)
    seeds = []
    if tier == "thorough":
        # the same family under other string-hash seeds (set / graph iteration orders differ between processes)
        for hs in ("1", "7", "1234"):
            env = dict(os.environ, PYTHONHASHSEED=hs, PYTHONPATH=os.path.dirname(os.path.dirname(os.path.abspath(__file__))))
            r = subprocess.run([sys.executable, "-c",
                                "from props import C06; import json; e,d,f,s=C06.check_family('quick'); "
                                "print(json.dumps({'ev':e,'dist':d,'fails':f[:2]}))"],
                               capture_output=True, text=True, env=env, cwd=env["PYTHONPATH"])
            try:
                import json
                res = json.loads(r.stdout.strip().splitlines()[-1])
                ev += res["ev"]
                seeds.append({"PYTHONHASHSEED": hs, "evaluations": res["ev"], "failures": len(res["fails"])})
                fails += res["fails"]
            except Exception:      # noqa
                seeds.append({"PYTHONHASHSEED": hs, "error": r.stderr[-200:]})
    return {"evaluations": ev, "distinct_nontrivial": dist, "failures": fails, "samples": samples + seeds,
            "rule": "enumerated specification family (integration YAMLs, C19 family, 2-Einsum cascades, harvested "
                    "accelerator specifications in metrics mode): emitted text parses and passes the definite-"
                    "assignment analysis against the user-supplied name set derived from the specification alone; "
                    "thorough repeats the family under 3 further PYTHONHASHSEED values (bounded)"}


def extra(uni, tier, seed):
    # self-test of the analysis (it must reject programs that are not closed)
    bad = ["x = y\n", "for i in r:\n    t = 1\nz = t\n", "for i in r:\n    pass\nq = i\n",
           "if c:\n    t = 1\nz = t\n", "def f(a):\n    return b\n"]
    ok = all(closed(b, {"r", "c"}) for b in bad) and not closed("t = 0\nfor i in r:\n    t = t + i\nz = t\n", {"r"})
    return [Extra("selftest/definite-assignment analysis rejects unbound reads and accepts a closed program", ok, "",
                  backend="finite-case", kind="finite")]


def refute_extra(uni, e):
    return None
