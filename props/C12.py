"""C12: every trace the metrics dump consumes is produced during collection."""
import ast
import re
from pyvc import extract
from pyvc.driver import Extra
from props import common

ID = "C12"
LEVEL = "exploration"
SIDECARS = ["contracts.flow", "contracts.traces"]
TARGETS = ["FlowGraph.__build_loop_nest", "Collector.set_collecting", "Collector.__get_trace", "SBlock.__init__", "SBlock.add"]
TECHNIQUE = ("contracts on FlowGraph.__build_loop_nest (metrics nodes bracket the loop chain) and on the two spellings of a trace "
             "name - Collector.set_collecting (registration) and Collector.__get_trace (consumption) against one label "
             "specification (SMT) + structural lemmas on "
             "Collector.start/end and the intersector naming sites + bounded static cross-reference of the emitted text")
EXPLANATION = (
    "Proved: __build_loop_nest adds StartLoop -> MetricsNode(Start) -> first chain node and last EndLoop -> "
    "MetricsNode(End) -> Footer -> MetricsNode(Dump) when metrics are on, so (with the order contracts of C10) "
    "collection is opened before the first loop and closed after the last one, once, because Collector.start / end "
    "each emit exactly one beginCollect / endCollect and __trans_nodes translates each node once (structural). "
    "Intersector models are created, fed and queried under the variable <component>_<rank> built by the same "
    "expression at all three sites (structural). The two spellings of a trace name agree on its FORMAT (SMT): "
    "Collector.set_collecting registers exactly one Metrics.trace(<rank>, type_=label_of(tensor, rank, type, is_read), "
    "consumable=...) as its last statement, and Collector.__get_trace names <prefix>-<rank>-<that same label>.csv "
    "(plus _payload and one Traffic.filterTrace over that file and <prefix>-<rank>-iter.csv exactly when a lazy payload "
    "binding is neither the iteration nor a get_payload trace) - both proved against one specification function. "
    "Whether a registration with matching ARGUMENTS is emitted for every consumed name is decided "
    "by a BOUNDED static cross-reference over the emitted text of the accelerator specifications found in the "
    "repository (registration and consumption meet only through strings computed from different views of Metrics "
    "across several hundred lines of dictionary plumbing: not brought under contract).")
TRUSTED = ["fibertree writes <prefix>-<rank>-<type>.csv for a registered trace (its documented naming)",
           "order contracts of C10 (topological order preserved by hoisting)"]
ASSUMPTIONS = ["bounded: accelerator specifications of tests/integration and YAML literals of the repository's tests, two "
               "index-math specifications, and their single-point style / intersector-type variants (about 50 compile), "
               "each Einsum section cross-referenced"]


def extra(uni, tier, seed):
    out = []
    col = extract.module("teaal/trans/collector.py")
    st = ast.unparse(col.func("Collector.start"))
    out.append(Extra("structural/Collector.start emits exactly one beginCollect, first",
                     st.count("'beginCollect'") == 1 and "for " not in st.split("beginCollect")[0] and
                     st.index("block.add(SExpr(call))") < st.index("self.__build_components()"), ""))
    en = ast.unparse(col.func("Collector.end"))
    out.append(Extra("structural/Collector.end emits exactly one endCollect",
                     en.count("'endCollect'") == 1 and "return SExpr(EMethod(EVar('Metrics'), 'endCollect', []))" in en, ""))
    tn = ast.unparse(extract.module("teaal/trans/hifiber.py").func("HiFiber.__trans_nodes"))
    ok = tn.count("self.collector.start()") == 1 and tn.count("self.collector.end()") == 1 and tn.count("self.collector.dump()") == 1
    out.append(Extra("structural/each metrics node kind is translated by exactly one call", ok, ""))
    # intersector variable: <component>_<rank> built identically where it is created, fed and queried
    create = ast.unparse(col.func("Collector.create_component"))
    consume = ast.unparse(col.func("Collector.consume_traces"))
    query = ast.unparse(col.func("Collector.__build_intersections"))
    a = "component.get_name() + '_' + rank" in create or "name + '_' + rank" in create
    b = "EVar(component + '_' + rank)" in consume
    c = "+ '_' +" in query
    out.append(Extra("structural/intersector model variable is <component>_<rank> at creation, feeding and query",
                     a and b and c, "create:%s consume:%s query:%s" % (a, b, c)))
    return out


# ---------------------------------------------------------------------------------------------- bounded part
def cross_reference(text):
    """static cross-reference over one emitted metrics-mode program; returns list of problems"""
    problems = []
    lines = text.split("\n")
    begins = [i for i, l in enumerate(lines) if l.strip().startswith("Metrics.beginCollect(")]
    for bi, b in enumerate(begins):
        end_sec = begins[bi + 1] if bi + 1 < len(begins) else len(lines)
        sec = lines[b:end_sec]
        prefix = re.match(r'\s*Metrics\.beginCollect\("([^"]*)"\)', sec[0]).group(1)
        ends = [i for i, l in enumerate(sec) if l.strip() == "Metrics.endCollect()"]
        if len(ends) != 1:
            problems.append("section %s: %d endCollect" % (prefix, len(ends)))
            continue
        e = ends[0]
        fors = [i for i, l in enumerate(sec) if re.match(r"\s*for .* in .*:$", l)]
        if fors and not (0 < fors[0] and fors[-1] < e):
            problems.append("section %s: loops are not bracketed by begin/endCollect" % prefix)
        if any(l.startswith(" ") for l in [sec[0], sec[e]]):
            problems.append("section %s: begin/endCollect inside a loop" % prefix)
        collect, dump = sec[:e], sec[e:]
        produced, consumable = set(), set()
        for l in collect:
            for m in re.finditer(r'Metrics\.trace\("(\w+)", type_="([\w]+)", consumable=(True|False)\)', l):
                produced.add("%s-%s-%s.csv" % (prefix, m.group(1), m.group(2)))
                if m.group(3) == "True":
                    consumable.add((m.group(1), m.group(2)))
        created = set(re.findall(r"^(\w+) = \w*Intersector\(\)", "\n".join(collect), flags=re.M))
        for l in collect:
            for m in re.finditer(r"(\w+)\.addTraces\(", l):
                if m.group(1) not in created:
                    problems.append("section %s: %s fed but never created" % (prefix, m.group(1)))
            for m in re.finditer(r'Metrics\.consumeTrace\("(\w+)", "(\w+)"\)', l):
                if (m.group(1), m.group(2)) not in consumable:
                    problems.append("section %s: consumeTrace(%s, %s) without a consumable registration" % (prefix, m.group(1), m.group(2)))
        for l in dump:
            fm = re.match(r'\s*Traffic\.filterTrace\("([^"]*)", "([^"]*)", "([^"]*)"\)', l)
            if fm:
                for src in fm.group(1, 2):
                    if src not in produced:
                        problems.append("section %s: filterTrace reads %s which is never produced" % (prefix, src))
                produced.add(fm.group(3))
                continue
            for fn in re.findall(r'"([^"]*\.csv)"', l):
                if fn not in produced:
                    problems.append("section %s: %s consumed but never produced" % (prefix, fn))
            for m in re.finditer(r"(\w+)\.getNumIntersects\(\)", l):
                if m.group(1) not in created:
                    problems.append("section %s: %s queried but never created" % (prefix, m.group(1)))
    if not begins and "Metrics." in text:
        problems.append("metrics calls without beginCollect")
    return problems


def _with_second_configuration(specs):
    """each accelerator specification with its (first) configuration repeated under a second configuration name that no
    Einsum uses: the same component names then exist in two configurations"""
    import copy
    import io
    from ruamel.yaml import YAML
    out = []
    for name, txt in specs:
        try:
            doc = YAML(typ="safe").load(txt)
            cfgs = list(doc["architecture"])
        except Exception:      # noqa
            continue
        if len(cfgs) != 1:
            continue
        doc["architecture"]["second_" + cfgs[0]] = copy.deepcopy(doc["architecture"][cfgs[0]])
        buf = io.StringIO()
        y = YAML(typ="safe")
        y.default_flow_style = False
        y.dump(doc, buf)
        out.append((name + " ~ configuration repeated under a second name", buf.getvalue()))
    return out


def bounded(uni, tier, seed):
    ev, fails, samples, distinct = 0, [], [], set()
    base = list(common.accelerator_variants(tier))
    second = _with_second_configuration(common.accelerator_specs())
    from props import accel_family
    # the format of A lists its ranks in another order than the mapping's rank order for A (layout discordant with traversal)
    disc = []
    for part, inner in ((None, "K"), ("uniform_shape(4)", "K0")):
        y0 = accel_family.spec(part, "two-finger", "contiguous", ("coord", "payload"), ("Buf",), "lazy")
        kr = ["K"] if part is None else ["K1", "K0"]
        blk = lambda ranks: "  A:\n    default:\n      rank-order: [%s]\n" % ", ".join(ranks) + "".join(     # noqa: E731
            "      %s:\n        format: C\n        cbits: 32\n        pbits: 64\n" % r for r in ranks)
        if blk(kr + ["M"]) in y0:
            disc.append(("matmul K:%s with A's format in rank order %s (mapping: %s)" % (part, ["M"] + kr, kr + ["M"]),
                         y0.replace(blk(kr + ["M"]), blk(["M"] + kr))))
    for name, txt in base + second + accel_family.specs(tier) + disc:
        try:
            text = str(common.compile_full(txt))
        except Exception:      # noqa
            continue
        ev += 1
        distinct.add(text)
        probs = cross_reference(text)
        if len(samples) < 3:
            samples.append({"spec": name, "csv_names": len(set(re.findall(r'"([^"]*\.csv)"', text))),
                            "sections": text.count("Metrics.beginCollect(")})
        if probs:
            # the recorded findings are matched by the failing case, not by the input alone: on a repeated configuration
            # ONLY eager traces are consumed unproduced; under a discordant format ONLY a filterTrace input <rank>-iter is
            # missing. Anything else that goes wrong on these inputs is reported
            cause = ""
            if (name, txt) in second and all(re.search(r"-eager_\w+\.csv consumed but never produced", q) for q in probs):
                cause = " cause=one-component-name-in-two-configurations"
            elif (name, txt) in disc and all(re.search(r"filterTrace reads \S+-iter\.csv which is never produced", q) for q in probs):
                cause = " cause=format-rank-order-differs-from-the-tensors-rank-order"
            fails.append({"name": "bounded/trace-cross-reference", "detail": "%s: %s%s" % (name, probs[0], cause),
                          "witness": {"spec": name, "problems": probs[:5], "yaml": txt[:1500]}})
    return {"evaluations": ev, "distinct_nontrivial": len(distinct), "failures": fails, "samples": samples,
            "rule": "emitted metrics-mode text of every accelerator specification of the repository (integration YAMLs + "
                    "YAML literals of the tests, default all-temporal spacetime filled in where missing), of two "
                    "index-math specifications (convolution / strided access with a buffered input) and of every "
                    "single-point variant of these (style of one buffer binding flipped lazy <-> eager, type of one "
                    "intersector changed) that the compiler accepts, and of each repository specification with its "
                    "configuration repeated under a second, unused configuration name, and of a generated matrix-multiply "
                    "family (props/accel_family.py: K unpartitioned / shape / occupancy split x intersector type x layout "
                    "of A's K rank x coord/payload/elem bound in cache / buffet / both x style): one "
                    "begin/endCollect bracket per Einsum around its loops; every .csv consumed after endCollect "
                    "(traces dictionary, filterTrace inputs, numIters) is a registered <prefix>-<rank>-<type>.csv or an "
                    "earlier filterTrace output; consumeTrace only on consumable registrations; intersectors created "
                    "before being fed / queried (bounded)"}


def refute(uni, ob, replay_dir):
    b = bounded(uni, "quick", 0)
    if b["failures"]:
        return dict(b["failures"][0]["witness"], how="static cross-reference of the text emitted by the real compiler")
    return None


def refute_extra(uni, e):
    return refute(uni, None, None)
