"""Bounded companion of C05 (labelled bounded, never counted as proved): the real compiler on an enumerated family
of cascades; the text added by Einsum i in the cascade must equal its stand-alone compilation (same declarations and
mapping) up to the numbering of temporaries."""
import itertools
import re

DECL = {"A": "[K, M]", "B": "[K, N]", "C": "[M, N]", "I": "[W]", "F": "[S]", "D": "[M]", "E": "[I, J, K]", "G": "[I]"}

# (name, expression template with {X} = output, declaration of X, {mapping section: text for X})
STEPS = [
    ("mm", "{X}[m, n] = A[k, m] * B[k, n]", "[M, N]", [
        {},
        {"loop-order": "[K, M, N]"},
        {"partitioning": "K: [uniform_shape(4)]"},
        {"partitioning": "K: [uniform_occupancy(A.4)]"},
        {"partitioning": "K: [uniform_shape(8), uniform_shape(4)]"},
        {"partitioning": "K: [uniform_shape(8), uniform_occupancy(A.4)]"},
        {"loop-order": "[M, K, N]", "spacetime": "space: [N]\n        time: [M, K]"},
        {"partitioning": "M: [uniform_shape(3)]", "loop-order": "[M1, K, M0, N]"},
    ]),
    ("red", "{X}[m] = A[k, m]", "[M]", [
        {},
        {"loop-order": "[M, K]"},
        {"partitioning": "(K, M): [flatten()]\n        KM: [uniform_occupancy(A.3)]"},
        {"partitioning": "K: [uniform_shape(4)]"},
    ]),
    ("conv", "{X}[q] = I[q + s] * F[s]", "[Q]", [
        {},
        {"loop-order": "[S, Q]"},
        {"partitioning": "Q: [uniform_shape(4)]\n        W: [follow(Q)]", "loop-order": "[Q1, Q0, S]"},
    ]),
    ("outer", "{X}[q, s] = {P}[q] * F[s]", "[Q, S]", [          # reads a previous conv output {P}
        {},
        {"partitioning": "Q: [uniform_shape(4)]"},
    ]),
    ("add", "{X}[m, n] = {P}[m, n] + C[m, n]", "[M, N]", [      # reads a previous mm output {P}
        {},
        {"loop-order": "[N, M]"},
        {"partitioning": "M: [uniform_shape(2)]"},
    ]),
    ("scale", "{X}[m] = {P}[m] * D[m]", "[M]", [                # reads a previous red output {P}
        {},
        {"partitioning": "M: [uniform_occupancy(D.2)]"},
    ]),
    ("redI", "{X}[i, j] = E[i, j, k]", "[I, J]", [             # an intermediate with a rank named like the `I` suffix of temporaries
        {"partitioning": "I: [uniform_shape(4)]"},
        {"partitioning": "I: [uniform_occupancy(E.4)]"},
        {"partitioning": "J: [uniform_shape(2)]", "loop-order": "[J1, I, J0, K]"},
    ]),
    ("useI", "{X}[i] = {P}[i, j] * G[i]", "[I]", [             # reads a previous redI output {P}
        {},
        {"partitioning": "I: [uniform_shape(2)]"},
    ]),
]
NEEDS = {"outer": "conv", "add": "mm", "scale": "red", "useI": "redI"}
RANK_ORDERS = [{}, {"A": "[M, K]"}]


def cascades(maxlen=2):
    """yield lists of (step name, variant index); readers of a previous output are placed after a producer"""
    variants = [(n, v) for n, _, _, vs in STEPS for v in range(len(vs))]
    for n in range(2, maxlen + 1):
        for combo in itertools.product(variants, repeat=n):
            ok = True
            for i, (name, _) in enumerate(combo):
                if name in NEEDS and NEEDS[name] not in [c[0] for c in combo[:i]]:
                    ok = False
            if ok:
                yield list(combo)


def build_yaml(combo, rank_order, only=None, upto=None):
    """YAML of the cascade (all expressions), of its prefix 0..upto, or of expression `only` alone;
    declarations and mapping are always those of the whole cascade"""
    steps = {n: (e, d, vs) for n, e, d, vs in STEPS}
    decl = dict(DECL)
    exprs, maps = [], []
    last = {}
    for i, (name, v) in enumerate(combo):
        out = "T%d" % i
        e, d, vs = steps[name]
        decl[out] = d
        expr = e.replace("{X}", out)
        if "{P}" in expr:
            expr = expr.replace("{P}", last[NEEDS[name]])
        last[name] = out
        exprs.append(expr)
        maps.append((out, vs[v]))
    y = "einsum:\n  declaration:\n" + "".join("    %s: %s\n" % kv for kv in decl.items())
    sel = range(len(exprs))
    if only is not None:
        sel = [only]
    elif upto is not None:
        sel = range(upto + 1)
    y += "  expressions:\n" + "".join("    - %s\n" % exprs[i] for i in sel)
    y += "mapping:\n"
    if rank_order:
        y += "  rank-order:\n" + "".join("    %s: %s\n" % kv for kv in rank_order.items())
    for sec in ("loop-order", "partitioning", "spacetime"):
        ent = [(o, m[sec]) for o, m in maps if sec in m]
        if ent:
            y += "  %s:\n" % sec
            for o, txt in ent:
                if sec == "loop-order":
                    y += "    %s: %s\n" % (o, txt)
                else:
                    y += "    %s:\n        %s\n" % (o, txt)
    return y


def renumber(text):
    seen = {}

    def sub(m):
        k = m.group(0)
        if k not in seen:
            seen[k] = "tmp%d" % len(seen)
        return seen[k]
    return re.sub(r"\btmp\d+\b", sub, text)


def compile_text(y):
    from teaal.parse import Einsum, Mapping
    from teaal.trans.hifiber import HiFiber
    es = Einsum.from_str(y)
    hf = HiFiber(es, Mapping.from_str(y))
    compile_text.last = (hf, es)
    return str(hf)


def layout_problems():
    """rank-id protocol of C07 on the program compiled last: every tensor variable (intermediates included) holds an
    object whose rank ids spell its name, set on an object with that many ranks - 'left in its declared layout'"""
    from props import C07
    hf, es = compile_text.last
    probs, _o, _i = C07.check_tree(hf.hifiber, dict(es.get_declaration()))
    return probs


def intermediates_named_as_read(text, ends):
    """each Einsum's result T<i> is left bound under T<i>_<declared ranks>, and every T<j>_... name the program reads
    was bound by an earlier statement (the T<i> are produced by the cascade, none is user-supplied)"""
    import ast as _ast
    tree = _ast.parse(text)
    bound, last = set(), {}
    pat = re.compile(r"^T(\d+)_[A-Z0-9]+(_flat)?$")

    def visit(stmts):
        for st in stmts:
            reads = [x.id for x in _ast.walk(st) if isinstance(x, _ast.Name) and isinstance(x.ctx, _ast.Load) and pat.match(x.id)]
            if isinstance(st, (_ast.For, _ast.If, _ast.While)):
                hdr = st.iter if isinstance(st, _ast.For) else st.test
                reads = [x.id for x in _ast.walk(hdr) if isinstance(x, _ast.Name) and pat.match(x.id)]
            for r in reads:
                if r not in bound:
                    return "%s is read at line %d but no earlier statement binds it" % (r, st.lineno)
            if isinstance(st, _ast.Assign):
                for t in st.targets:
                    if isinstance(t, _ast.Name) and pat.match(t.id):
                        bound.add(t.id)
                        num = int(pat.match(t.id).group(1))
                        lo = ends[num - 1] if num > 0 else 0
                        if lo < st.lineno <= ends[num]:         # inside the section of the Einsum that produces it
                            last[str(num)] = t.id
            for sub in ("body", "orelse"):
                if isinstance(st, (_ast.For, _ast.If, _ast.While)):
                    e = visit(getattr(st, sub))
                    if e:
                        return e
        return None
    return visit(tree.body), last


def check_cascade(combo, rank_order):
    """returns (status, detail): status in ok | skip | FAIL"""
    lay = []
    try:
        texts = [compile_text(build_yaml(combo, rank_order, upto=i)) for i in range(len(combo))]
        lay = layout_problems()
    except Exception as e:      # noqa
        casc_err = "%s: %s" % (type(e).__name__, e)
        texts = None
    alone = []
    for i in range(len(combo)):
        try:
            alone.append(compile_text(build_yaml(combo, rank_order, only=i)))
        except Exception as e:      # noqa
            alone.append(None)
    if any(a is None for a in alone):
        return "skip", "some Einsum is not compilable on its own"
    if texts is None:
        return "FAIL", "every Einsum compiles alone but the cascade raises " + casc_err
    prev = []
    ends = []
    for i, t in enumerate(texts):
        lines = t.split("\n")
        ends.append(len(lines))
        if lines[:len(prev)] != prev:
            return "FAIL", "text of prefix 0..%d does not extend the text of prefix 0..%d" % (i, i - 1)
        mine = "\n".join(lines[len(prev):])
        if renumber(mine) != renumber(alone[i]):
            return "FAIL", "Einsum %d differs from its stand-alone compilation" % i
        prev = lines
    if lay:
        return "FAIL", "intermediate layout: " + lay[0]
    # intermediates are left under exactly the name later Einsums read
    steps = {n: d for n, _, d, _ in STEPS}
    err, last = intermediates_named_as_read(texts[-1], ends)
    if err:
        return "FAIL", "intermediate name: " + err
    for i, (name, _) in enumerate(combo):
        want = "T%d_%s" % (i, "".join(x.strip() for x in steps[name].strip("[]").split(",")))
        if last.get(str(i)) != want:
            return "FAIL", "the result of Einsum %d is left bound to %s, not to %s" % (i, last.get(str(i)), want)
    return "ok", ""


# hand-written cascades outside the generator's shape: one tensor produced by two Einsums (legal: tests/integration/
# example7.yaml does it) with a mapping entry that then applies to both producers
EXTRA_CASCADES = [
    ("same tensor produced twice, spacetime with slip", """einsum:
  declaration:
    A: [K, M]
    B: [K, N]
    C: [M, N]
    Y: [M, N]
    Z: [M, N]
  expressions:
    - Z[m, n] = A[k, m] * B[k, n]
    - Y[m, n] = Z[m, n] * C[m, n]
    - Z[m, n] = Y[m, n] * A[k, m]
mapping:
  loop-order:
    Z: [K, M, N]
  spacetime:
    Z:
      space: [M]
      time: [K, N]
      opt: slip
"""),
    ("same tensor produced twice, partitioned", """einsum:
  declaration:
    A: [K, M]
    B: [K, M]
    Z: [M]
  expressions:
    - Z[m] = A[k, m]
    - Z[m] = B[k, m]
mapping:
  partitioning:
    Z:
      K: [uniform_shape(4)]
"""),
    ("the same rank of one tensor split into 1 and then 2 levels by consecutive Einsums", """einsum:
  declaration:
    A: [K, M]
    T: [M]
    Z: [M]
  expressions:
    - T[m] = A[k, m]
    - Z[m] = A[k, m] * T[m]
mapping:
  partitioning:
    T:
      K: [uniform_shape(4)]
    Z:
      K: [uniform_shape(8), uniform_shape(4)]
"""),
    ("three flattened output ranks read by the next Einsum", """einsum:
  declaration:
    A: [M, N, O, P]
    T: [M, N, O, P]
    Z: [M, P]
  expressions:
    - T[m, n, o, p] = A[m, n, o, p]
    - Z[m, p] = T[m, n, o, p]
mapping:
  partitioning:
    T:
      (N, O, P): [flatten()]
  loop-order:
    T: [M, NOP]
"""),
]


def check_yaml_cascade(y):
    """the same question for a hand-written cascade: prefix i extends prefix i-1 and its new text equals Einsum i alone"""
    import io
    from ruamel.yaml import YAML

    def dump(doc):
        buf = io.StringIO()
        yy = YAML(typ="safe")
        yy.default_flow_style = False
        yy.dump(doc, buf)
        return buf.getvalue()
    doc = YAML(typ="safe").load(y)
    exprs = list(doc["einsum"]["expressions"])
    prev = []
    for i in range(len(exprs)):
        d1 = YAML(typ="safe").load(y)
        d1["einsum"]["expressions"] = exprs[:i + 1]
        d2 = YAML(typ="safe").load(y)
        d2["einsum"]["expressions"] = [exprs[i]]
        try:
            alone = compile_text(dump(d2))
        except Exception:      # noqa
            return "skip", "Einsum %d is not compilable on its own" % i
        try:
            casc = compile_text(dump(d1))
        except Exception as e:      # noqa
            return "FAIL", "every Einsum compiles alone but the prefix 0..%d raises %s: %s" % (i, type(e).__name__, e)
        lines = casc.split("\n")
        if lines[:len(prev)] != prev:
            return "FAIL", "text of prefix 0..%d does not extend the text of prefix 0..%d" % (i, i - 1)
        if renumber("\n".join(lines[len(prev):])) != renumber(alone):
            return "FAIL", "Einsum %d differs from its stand-alone compilation" % i
        prev = lines
        pr = layout_problems()
        if pr:
            return "FAIL", "intermediate layout: " + pr[0]
    return "ok", ""


def sweep(maxlen=2, limit=None, stride=1, offset=0):
    n = 0
    evaluated, distinct, failures, samples = 0, set(), [], []
    for name, y in EXTRA_CASCADES:
        st, detail = check_yaml_cascade(y)
        if st == "skip":
            continue
        evaluated += 1
        distinct.add(name)
        if st == "FAIL":
            failures.append({"name": "bounded/cascade-vs-standalone", "detail": "%s: %s" % (name, detail),
                             "witness": {"cascade": name, "yaml": y, "what": detail}})
    for ro in RANK_ORDERS:
        for combo in cascades(maxlen):
            n += 1
            if (n + offset) % stride and not (combo[0][0] == "redI" and combo[-1][0] == "useI"):
                continue        # (producer/consumer pairs over the rank named I are always evaluated)
            if limit and evaluated >= limit:
                break
            st, detail = check_cascade(combo, ro)
            if st == "skip":
                continue
            evaluated += 1
            distinct.add((tuple(combo), tuple(ro.items())))
            if len(samples) < 3:
                samples.append({"cascade": combo, "rank_order": ro})
            if st == "FAIL":
                failures.append({"name": "bounded/cascade-vs-standalone", "detail": detail,
                                 "witness": {"cascade": combo, "rank_order": ro,
                                             "yaml": build_yaml(combo, ro), "what": detail}})
                if len(failures) >= 5:
                    return evaluated, len(distinct), failures, samples
    return evaluated, len(distinct), failures, samples
