"""C08: emission-order nondeterminism is benign - the compile-time clauses (determinism within a process; every text
produced under another hash seed is closed). The clause about computed tensors is execution semantics: not applicable."""
import ast
import json
import os
import subprocess
import sys
from pyvc import extract
from pyvc.driver import Extra
from props import common

ID = "C08"
LEVEL = "exploration"
SIDECARS = []
TARGETS = []
TECHNIQUE = ("purity / determinism contract checked at every site of teaal/ (no ambient input: identity, clock, randomness, "
             "environment; hashes and orderings of teaal's own classes are functions of content) + bounded: the same "
             "specification compiled twice in one process gives identical text, and the texts produced under other "
             "PYTHONHASHSEED values pass the definite-assignment analysis of C06")
EXPLANATION = (
    "Claimed for its compile-time clauses. (1) Within one process the emitted text is a function of the specification: "
    "no teaal code reads an ambient source (identity of objects, time, random numbers, environment, files other than the "
    "specification), every __hash__/__eq__/__lt__ that teaal defines is computed from repr()/fields, and set / dict / "
    "graph iteration then depends only on the hash seed and the insertion history, both fixed within a process; module- "
    "and class-level state is constant (the C15 lemma, re-checked here). These are site obligations over the AST of "
    "every module, recomputed on every run. (2) Bounded: every specification of the family is compiled twice from "
    "fresh parses and twice from the same parsed objects in one process - the four texts must be identical - and "
    "compiled in child interpreters under other PYTHONHASHSEED values - every text must pass C06's closedness analysis and the rank-id protocol "
    "of C07 over its tensor-shaping statements, and a specification that compiles here must compile there "
    "(texts may differ between seeds; that is what the property allows). Whether texts that differ compute identical "
    "tensors is execution semantics of the emitted program: not applicable.")
TRUSTED = ["CPython: within one process, str hashes are fixed and set/dict iteration order is a function of hash values "
           "and insertion history", "lark / networkx / sympy / ruamel are deterministic functions of their inputs within a process",
           "the definite-assignment analysis of props/C06.py"]
ASSUMPTIONS = ["the clause 'all texts compute identical tensors on identical inputs' is not applicable (no fibertree semantics)",
               "bounded: enumerated specification family; seeds listed in the evidence"]

_AMBIENT_MODULES = {"time", "random", "datetime", "uuid", "secrets", "tempfile", "socket", "threading", "multiprocessing"}
_AMBIENT_CALLS = {"id", "input", "hash", "globals", "locals", "open", "exec", "eval"}


def extra(uni, tier, seed):
    out = []
    bad_imports, bad_calls, bad_hash, env = [], [], [], []
    for rel in extract.all_repo_modules():
        tree = extract.module(rel).tree
        # enclosing function of every node (for the two allowed uses below)
        parents = {}
        for fn in ast.walk(tree):
            if isinstance(fn, (ast.FunctionDef, ast.AsyncFunctionDef)):
                for n in ast.walk(fn):
                    parents.setdefault(id(n), fn.name)
        for n in ast.walk(tree):
            if isinstance(n, ast.Import):
                for a in n.names:
                    if a.name.split(".")[0] in _AMBIENT_MODULES:
                        bad_imports.append("%s:%d import %s" % (rel, n.lineno, a.name))
            if isinstance(n, ast.ImportFrom) and (n.module or "").split(".")[0] in _AMBIENT_MODULES:
                bad_imports.append("%s:%d from %s" % (rel, n.lineno, n.module))
            if isinstance(n, ast.Attribute) and n.attr in ("environ", "getenv", "urandom", "getpid", "listdir", "scandir"):
                env.append("%s:%d .%s" % (rel, n.lineno, n.attr))
            if isinstance(n, ast.Call) and isinstance(n.func, ast.Name) and n.func.id in _AMBIENT_CALLS:
                where = parents.get(id(n), "<module>")
                # allowed: hash(repr(self)) inside a __hash__ (content hash); id(x) used only for membership in a local
                # `visited` set (Architecture.__init__: a yes/no question, no order or text depends on the number)
                if n.func.id == "hash" and where == "__hash__" and ast.unparse(n) == "hash(repr(self))":
                    continue
                if n.func.id == "id" and rel == "teaal/parse/arch.py" and where == "__init__":
                    continue
                if n.func.id == "open" and rel == "teaal/parse/yaml.py" and where == "parse_file":
                    continue        # reading the specification file itself
                bad_calls.append("%s:%d %s in %s" % (rel, n.lineno, ast.unparse(n)[:40], where))
        for cls in [c for c in ast.walk(tree) if isinstance(c, ast.ClassDef)]:
            meths = {f.name: f for f in cls.body if isinstance(f, ast.FunctionDef)}
            if "__hash__" in meths:
                src = ast.unparse(meths["__hash__"])
                if "id(" in src or "super().__hash__" in src or "object.__hash__" in src:
                    bad_hash.append("%s %s.__hash__ uses identity" % (rel, cls.name))
            for m in ("__lt__", "__eq__", "__repr__", "__str__"):
                if m in meths and "id(" in ast.unparse(meths[m]):
                    bad_hash.append("%s %s.%s uses identity" % (rel, cls.name, m))
    out.append(Extra("site/no ambient input is imported (clock, randomness, threads, temporary files)", not bad_imports,
                     "; ".join(bad_imports[:4])))
    out.append(Extra("site/no environment or process state is read", not env, "; ".join(env[:4])))
    out.append(Extra("site/object identity and built-in hash are used only as content hash (__hash__ = hash(repr(self))) or as a "
                     "membership test", not bad_calls, "; ".join(bad_calls[:4])))
    out.append(Extra("site/hash, equality, order and repr of teaal's classes are functions of content", not bad_hash,
                     "; ".join(bad_hash[:4])))
    # repr() feeds the hashes: every class that inherits the content hash builds its repr from its fields
    # (no default object repr, which would print an address)
    weak = []
    for rel in extract.all_repo_modules():
        m = extract.module(rel)
        for cname, cls in m.classes.items():
            meths = {f.name for f in cls.body if isinstance(f, ast.FunctionDef)}
            if "__hash__" in meths and "__repr__" not in meths:
                # repr must come from a base in the same module that builds it from __key()/fields
                src = ast.unparse(cls)
                if "__key" not in src and "_Base__key" not in src:
                    weak.append("%s %s: __hash__ without __repr__" % (rel, cname))
    out.append(Extra("site/classes with a content hash define the repr it is computed from", not weak, "; ".join(weak[:4])))
    # module- and class-level state is constant and never written (the process-level clause of C15, re-checked here)
    from pyvc import structural
    bad = structural.attr_stores_not_on_self({("teaal/parse/equation.py", "ranks.children")})
    out.append(Extra("process/no store outside self (no class or module attribute is written)", not bad, "; ".join(bad[:4])))
    mut = []
    for rel in extract.all_repo_modules():
        tree = extract.module(rel).tree
        scopes = [(rel, tree.body)] + [(rel + ":" + c.name, c.body) for c in tree.body if isinstance(c, ast.ClassDef)]
        for where, body in scopes:
            for n in body:
                if isinstance(n, (ast.Assign, ast.AnnAssign)):
                    v = n.value
                    if v is None or isinstance(v, ast.Constant):
                        continue
                    if isinstance(v, ast.Call) and isinstance(v.func, ast.Name) and v.func.id in ("Lark", "TypeVar"):
                        continue
                    if isinstance(v, (ast.Name, ast.Attribute, ast.Subscript)):
                        continue
                    mut.append("%s:%d %s" % (where, n.lineno, ast.unparse(n)[:60]))
    out.append(Extra("process/module- and class-level objects are constants, aliases or lark parsers", not mut, "; ".join(mut[:4])))
    return out


def _family(tier, seed):
    import glob
    from pyvc.extract import REPO
    from props import hoist_family, defaults_family
    fam = []
    for path in sorted(glob.glob(REPO + "/tests/integration/*.yaml")):
        fam.append((path.rsplit("/", 1)[1], open(path).read()))
    for decl, expr, parts in defaults_family.SPECS:
        for part in parts:
            fam.append((expr + str(part), defaults_family.yaml_of(decl, expr, part, False)))
    hf = hoist_family.specs(tier, seed)
    fam += hf if tier == "thorough" else hf[::3]
    fam += [(n_, y_) for n_, y_ in SEED_SENSITIVE]
    return fam


def _mk(decl, expr, part, lo=None):
    outn = expr.split("[", 1)[0].strip()
    y = "einsum:\n  declaration:\n" + "".join("    %s: %s\n" % kv for kv in decl.items())
    y += "  expressions:\n    - %s\nmapping:\n  partitioning:\n    %s:\n" % (expr, outn) + "".join("      %s\n" % ln for ln in part)
    if lo:
        y += "  loop-order:\n    %s: [%s]\n" % (outn, ", ".join(lo))
    return y


# specifications in which SEVERAL partitionings are pending at once on one tensor (the order in which a set of
# partitionings is iterated then matters if the code is wrong): two flattens of one tensor, a flatten next to a split whose
# bottom level is flattened again, two output ranks each split twice by occupancy
SEED_SENSITIVE = [
    ("two flattens of one tensor, not adjacent",
     _mk({"A": "[M, N, K, J]", "Z": "[M, N, K, J]"}, "Z[m, n, k, j] = A[m, n, k, j]", ["(M, K): [flatten()]", "(N, J): [flatten()]"])),
    ("flatten next to a split whose bottom level is flattened again",
     _mk({"A": "[M, K, N, J]", "Z": "[M, K, N, J]"}, "Z[m, k, n, j] = A[m, k, n, j]",
         ["N: [uniform_shape(4)]", "(M, K): [flatten()]", "(N0, J): [flatten()]"])),
    ("two output ranks each split twice by occupancy",
     _mk({"A": "[M, N]", "Z": "[M, N]"}, "Z[m, n] = A[m, n]",
         ["M: [uniform_occupancy(A.6), uniform_occupancy(A.3)]", "N: [uniform_occupancy(A.6), uniform_occupancy(A.3)]"])),
    ("two flattens of an operand and an unflattened output",
     _mk({"A": "[M, N, K, J]", "Z": "[M]"}, "Z[m] = A[m, n, k, j]", ["(N, K): [flatten()]"])),
]


def _compile(y, objs=None):
    from teaal.parse import Einsum, Mapping, Architecture, Bindings, Format
    from teaal.trans.hifiber import HiFiber
    if objs is None:
        objs = [Einsum.from_str(y), Mapping.from_str(y)]
        try:
            a, b, f = Architecture.from_str(y), Bindings.from_str(y), Format.from_str(y)
            if a.get_spec() and b.get_bindings():
                objs += [a, b, f]
        except Exception:      # noqa
            pass
    hf = HiFiber(*objs)
    _compile.last = hf
    return str(hf), objs


def child(tier, seed):
    """run inside a child interpreter (other PYTHONHASHSEED): texts and closedness of the family"""
    from props import C06
    res = {}
    for name, y in _family(tier, seed):
        try:
            text, objs = _compile(y)
            user, _o = C06.user_names(y)
            probs = C06.closed(text, user)[:2]
            # the tensor-shaping statements of this text are consistent (rank-id protocol of C07): a text that is closed
            # but labels, merges or swizzles the wrong ranks under this seed is not "benign"
            from props import C07
            p7, _obj, _ids = C07.check_tree(_compile.last.hifiber, dict(objs[0].get_declaration()))
            res[name] = {"sha": __import__("hashlib").sha256(text.encode()).hexdigest()[:16], "problems": probs + p7[:2]}
        except Exception as e:      # noqa
            res[name] = {"sha": None, "error": type(e).__name__}
    print("@@" + json.dumps(res))


def bounded(uni, tier, seed):
    import hashlib
    from props import C06
    ev, fails, samples, distinct = 0, [], [], set()
    here = {}
    for name, y in _family(tier, seed):
        try:
            t1, objs = _compile(y)
        except Exception as e:      # noqa
            here[name] = None
            continue
        ev += 1
        distinct.add(t1)
        here[name] = hashlib.sha256(t1.encode()).hexdigest()[:16]
        texts = [t1]
        try:
            texts.append(_compile(y)[0])            # fresh parse, same process
            texts.append(_compile(y, objs)[0])      # the same parsed objects again
        except Exception as e:      # noqa
            fails.append({"name": "bounded/same-text-twice", "detail": "%s: second compilation raises %s: %s" % (name[:100], type(e).__name__, str(e)[:80]),
                          "witness": {"spec": name, "yaml": y[:1500]}})
            continue
        if len(set(texts)) != 1:
            fails.append({"name": "bounded/same-text-twice", "detail": "%s: texts of repeated compilations in one process differ" % name[:100],
                          "witness": {"spec": name, "yaml": y[:1500]}})
        if len(samples) < 2:
            samples.append({"spec": name[:80], "text_sha": here[name]})
    seeds = ["1", "2", "5", "8"] if tier != "thorough" else ["0", "1", "2", "3", "4", "5", "6", "7", "8", "9", "42", "1234"]
    root = os.path.dirname(os.path.dirname(os.path.abspath(__file__)))
    differing = 0
    outcomes = {name: {"this process": ("ok" if sha is not None else "raises")} for name, sha in here.items()}
    for hs in seeds:
        env = dict(os.environ, PYTHONHASHSEED=hs, PYTHONPATH=root)
        r = subprocess.run([sys.executable, "-c", "from props import C08; C08.child(%r, %d)" % (tier, seed)],
                           capture_output=True, text=True, env=env, cwd=root)
        line = [l for l in r.stdout.splitlines() if l.startswith("@@")]
        if not line:
            fails.append({"name": "bounded/closed-under-other-seeds", "detail": "child interpreter with PYTHONHASHSEED=%s failed: %s" % (hs, r.stderr[-300:]),
                          "witness": {"seed": hs}})
            continue
        res = json.loads(line[0][2:])
        n_diff = 0
        for name, rec in res.items():
            outcomes.setdefault(name, {})[hs] = rec.get("error") if rec.get("sha") is None else "ok"
            if rec.get("sha") is None:
                continue
            ev += 1
            if rec["sha"] != here.get(name):
                n_diff += 1
            if rec["problems"]:
                fails.append({"name": "bounded/closed-under-other-seeds",
                              "detail": "%s under PYTHONHASHSEED=%s: %s" % (name[:100], hs, rec["problems"][0]),
                              "witness": {"spec": name, "seed": hs, "problems": rec["problems"]}})
        differing += n_diff
        samples.append({"PYTHONHASHSEED": hs, "programs": len(res), "texts_differing_from_this_process": n_diff})
    # acceptance must not depend on the seed: a specification compiles under every seed or under none
    for name, oc in outcomes.items():
        if len({("ok" if v == "ok" else "raises") for v in oc.values()}) > 1:
            fails.append({"name": "bounded/closed-under-other-seeds",
                          "detail": "%s: whether it compiles depends on the hash seed: %s" % (name[:100], oc),
                          "witness": {"spec": name, "outcomes": oc}})
    return {"evaluations": ev, "distinct_nontrivial": len(distinct), "failures": fails[:8], "samples": samples,
            "rule": "integration specs + C19 family + placement family: compiled twice from fresh parses and once more from "
                    "the same parsed objects in one process (identical text required); compiled in child interpreters under "
                    "PYTHONHASHSEED in %s (every text must pass the definite-assignment analysis and the rank-id protocol of "
                    "C07, and compile wherever it compiles here; %d texts differed from "
                    "this process's, which the property allows)" % (seeds, differing)}


def refute_extra(uni, e):
    return None
