"""C05 (second sentence): each Einsum of a cascade is compiled independently of its predecessors.

Deductive core: `Fresh` (configuration-free Program, every shared Tensor in its constructor state) is established by
Program.__init__, re-established by Program.reset, and is the pre- AND postcondition of HiFiber.__translate; every
Tensor mutator is under a functional contract; the tmp counter is monotone; structural lemmas close the frame."""
import ast
import importlib
import time
import z3
from pyvc import structural, extract
from pyvc.driver import Extra
from props import common

ID = "C05"
LEVEL = "proof"
SIDECARS = ["contracts.tensor", "contracts.program"]
TENSOR_METHODS = ["__init__", "reset", "get_ranks", "get_init_ranks", "get_is_output", "root_name", "set_is_output",
                  "tensor_name", "from_fiber", "pop", "peek", "peek_clean", "peek_rest", "get_access", "fiber_name",
                  "swizzle", "update_ranks", "__get_rank"]
TARGETS = ["Tensor." + m for m in TENSOR_METHODS] + [
    "Program.__init__", "Program.reset", "Program.add_einsum",
    "TransUtils.__init__", "TransUtils.next_tmp", "TransUtils.curr_tmp",
    "HiFiber.__translate"]
EXPLANATION = (
    "Second sentence of C05 as a reset/typestate protocol: HiFiber.__translate requires Fresh(program) and ensures "
    "Fresh(program); Program.__init__/reset ensure Fresh; add_einsum writes only configuration fields and Tensor "
    "state. The first sentence (values computed by the emitted cascade) is execution semantics: not applicable.")
TRUSTED = ["assumed frames of collaborator constructors (see assumptions)", "CPython: str(int) injective"]
ASSUMPTIONS = [
    "scope: plain/spacetime compilation; in metrics mode Fusion and einsum_ind==0 initialisation deliberately carry "
    "history (blocks, metrics = {}), which the property's stand-alone comparison does not cover",
    "first sentence of C05 (sequential composition of computed values) is not applicable to this technique",
]
_mods = None


def _sidecars():
    global _mods
    if _mods is None:
        _mods = [importlib.import_module(m) for m in SIDECARS]
    return _mods


def extra(uni, tier, seed):
    out = []
    t0 = time.time()
    wl = {("teaal/parse/equation.py", "ranks.children")}
    bad = structural.attr_stores_not_on_self(wl)
    out.append(Extra("structural/encapsulation: every attribute store is on self", not bad, "; ".join(bad[:5])))
    # the persistent state of the objects shared across Einsums is exactly the declared one: a field that is not
    # in the sidecar is new cross-Einsum state nobody resets
    for rel, cname in (("teaal/ir/tensor.py", "Tensor"), ("teaal/ir/program.py", "Program"),
                       ("teaal/trans/utils.py", "TransUtils")):
        have = set()
        for fn in extract.module(rel).methods(cname):
            for n in ast.walk(fn):
                if isinstance(n, ast.Attribute) and isinstance(n.value, ast.Name) and n.value.id == "self" \
                        and isinstance(n.ctx, ast.Store):
                    have.add(n.attr)
        extra_f = sorted(f for f in have if f not in uni.obj_classes[cname])
        out.append(Extra("frame/persistent state of %s is the declared one" % cname, not extra_f,
                         "fields not covered by Fresh/reset contracts: %s" % extra_f))
    # every Tensor/Program/TransUtils method that writes a field is under (verified) contract
    for rel, cname in (("teaal/ir/tensor.py", "Tensor"), ("teaal/ir/program.py", "Program"),
                       ("teaal/trans/utils.py", "TransUtils")):
        conts = {f for f, k in uni.obj_classes[cname].items() if k.split("[")[0] in ("List", "Dict", "Set")}
        writers = structural.methods_storing_fields(rel, cname, conts)
        missing = [m for m in writers if cname + "." + m not in TARGETS]
        out.append(Extra("structural/all field writers of %s are verified" % cname, not missing,
                         "unverified writers: %s" % missing))
    # Program.reset / add_einsum are called from HiFiber.__translate only
    sites = [s for s in structural.call_sites({"add_einsum", "reset"})
             if s[4].endswith("program") or s[4] == "self.program"]
    badsites = [s for s in sites if s[1] != "HiFiber.__translate"]
    out.append(Extra("structural/program.add_einsum+reset called only by HiFiber.__translate", not badsites and len(sites) == 2,
                     "sites: %s" % sites))
    # reset() is the last effectful statement of __translate (return only afterwards)
    fn = extract.module("teaal/trans/hifiber.py").func("HiFiber.__translate")
    body = extract.strip_doc(fn.body)
    last2 = [ast.unparse(s) for s in body[-2:]]
    ok = last2 == ["self.program.reset()", "return stmt"]
    out.append(Extra("structural/__translate ends with program.reset(); return", ok, str(last2)))
    # translator objects are (re)assigned unconditionally before the nodes are translated
    idx = None
    for i, s in enumerate(body):
        if any(isinstance(n, ast.Attribute) and n.attr == "_HiFiber__trans_nodes" or
               (isinstance(n, ast.Attribute) and n.attr == "__trans_nodes") for n in ast.walk(s)):
            idx = i
            break
    assigned = set()
    for s in body[:idx or 0]:
        tg = None
        if isinstance(s, ast.Assign) and len(s.targets) == 1:
            tg = s.targets[0]
        elif isinstance(s, ast.AnnAssign) and s.value is not None:
            tg = s.target
        if isinstance(tg, ast.Attribute) and isinstance(tg.value, ast.Name) and tg.value.id == "self":
            assigned.add(tg.attr)
    need = {"metrics", "graphics", "partitioner", "header", "graph", "eqn"}
    out.append(Extra("structural/translator fields reassigned before use in __translate", need <= assigned,
                     "assigned unconditionally before __trans_nodes: %s" % sorted(assigned)))
    # the tmp counter is created once per compilation, outside any loop
    cs = structural.constructor_sites("TransUtils")
    ok = len(cs) == 1 and cs[0][1] == "HiFiber.__init__" and not cs[0][3]
    out.append(Extra("structural/TransUtils constructed once, outside the per-Einsum loop", ok, str(cs)))
    # lemma: two calls of next_tmp never return the same name (str(int) injective is an axiom about CPython)
    from pyvc.sorts import str_of_int
    a, b = z3.Ints("a b")
    s = z3.Solver()
    s.set("timeout", 10000)
    s.add(z3.ForAll([a, b], z3.Implies(str_of_int(a) == str_of_int(b), a == b)))
    c1, c2 = z3.Ints("c1 c2")
    s.add(c2 > c1)
    s.add(z3.Concat(z3.StringVal("tmp"), str_of_int(c1 + 1)) == z3.Concat(z3.StringVal("tmp"), str_of_int(c2 + 1)))
    r = s.check()
    out.append(Extra("lemma/next_tmp names are pairwise distinct", r == z3.unsat, str(r), backend="z3", kind="vc"))
    for e in out:
        e.seconds = (time.time() - t0) / max(1, len(out))
    return out


def refute(uni, ob, replay_dir):
    w = common.native_refute(uni, _sidecars(), ob, replay_dir)
    if w is None:
        # the statement itself on the real compiler: a cascade whose i-th Einsum differs from stand-alone compilation
        from props import cascade
        ev, dist, fails, _ = cascade.sweep(2)
        if fails:
            w = dict(fails[0]["witness"])
            w["how"] = "cascade compiled by the real HiFiber vs stand-alone compilation (tmp renumbered)"
    return w


def refute_extra(uni, e):
    from props import cascade
    ev, dist, fails, _ = cascade.sweep(2)
    if fails:
        w = dict(fails[0]["witness"])
        w["how"] = "cascade compiled by the real HiFiber vs stand-alone compilation (tmp renumbered)"
        return w
    return None


def bounded(uni, tier, seed):
    from props import cascade
    if tier != "thorough":
        ev, dist, fails, samples = cascade.sweep(2, stride=5, offset=seed % 5)
        return {"evaluations": ev, "distinct_nontrivial": dist, "failures": fails, "samples": samples,
                "rule": "every 5th 2-Einsum cascade of props/cascade.py (6 Einsum shapes x mapping variants x 2 "
                        "rank orders; producer/consumer pairs over a rank named I always): text added by Einsum i "
                        "== its stand-alone compilation up to tmp numbering; each result is left bound to "
                        "T<i>_<declared ranks> and every T<j>_... name read was bound earlier "
                        "(bounded; not counted as proved)"}
    ev, dist, fails, samples = cascade.sweep(2)
    ev3, dist3, fails3, _ = cascade.sweep(3, stride=97, offset=seed % 97)
    nev, nfail, per = common.native_sweep(uni, _sidecars(), TARGETS)
    return {"evaluations": ev + ev3 + nev, "distinct_nontrivial": dist + dist3, "failures": fails + fails3 + nfail,
            "samples": samples,
            "rule": "all 2-Einsum cascades and every 97th 3-Einsum cascade of props/cascade.py vs stand-alone "
                    "compilation, intermediates left under the names later Einsums read; plus every sidecar generator input through the real functions with the contracts "
                    "evaluated natively (bounded; not counted as proved)"}
