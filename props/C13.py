"""C13: fusion blocks are a legal, ordered partition of the Einsums (Fusion state machine under contract)."""
import importlib
from props import common

ID = "C13"
LEVEL = "proof"
SIDECARS = ["contracts.hardware", "contracts.fusion"]
TARGETS = ["Hardware.get_components", "Fusion.__init__", "Fusion.add_einsum", "Fusion.add_component", "Fusion.get_blocks", "Fusion.get_components"]
EXPLANATION = (
    "Representation invariant + per-call postcondition of the real Fusion.add_einsum, proved for every history: the "
    "new Einsum is appended to the open block or opens a new last block (all earlier blocks untouched), and it joins "
    "only if its configuration, its temporal prefix and the disjointness of its functional components agree with a "
    "ghost summary of the open block that is computed from specification functions of the inputs, not from the "
    "implementation's own variables. The lift from the per-call contract to 'every Einsum once, in order, "
    "contiguous, pairwise legal' is an induction over the call sequence stated in DESIGN.md.")
TRUSTED = ["observers of Program/Hardware/Component are heap-independent during add_einsum (assumed contracts)",
           "induction over the call history (meta-lemma)"]
_mods = None


def _sidecars():
    global _mods
    if _mods is None:
        _mods = [importlib.import_module(m) for m in SIDECARS]
    return _mods


def refute(uni, ob, replay_dir):
    return common.native_refute(uni, _sidecars(), ob, replay_dir, limit=3000)


def bounded(uni, tier, seed):
    if tier != "thorough":
        return None
    ev, failures, per = common.native_sweep(uni, _sidecars(), TARGETS, limit=20000)
    return {"evaluations": ev, "distinct_nontrivial": ev, "failures": failures,
            "rule": "every history of <= 3 Einsums over 2 configs x 2 space/time splits x 4 component sets fed to the "
                    "real Fusion with real Program/Hardware objects; the sidecar contract evaluated natively "
                    "(bounded; not counted as proved)",
            "samples": [{"function": k, "inputs": v} for k, v in per.items()]}
