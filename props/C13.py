"""C13: fusion blocks are a legal, ordered partition of the Einsums (Fusion state machine under contract)."""
import importlib
from props import common

ID = "C13"
LEVEL = "proof"
SIDECARS = ["contracts.hardware", "contracts.fusion", "contracts.rollup"]
TARGETS = ["Collector.__build_time", "Hardware.get_components", "Fusion.__init__", "Fusion.add_einsum", "Fusion.add_component", "Fusion.get_blocks", "Fusion.get_components", "SBlock.__init__", "SBlock.add"]
EXPLANATION = (
    "Representation invariant + per-call postcondition of the real Fusion.add_einsum, proved for every history: the "
    "new Einsum is appended to the open block or opens a new last block (all earlier blocks untouched), and it joins "
    "only if its configuration, its temporal prefix and the disjointness of its functional components agree with a "
    "ghost summary of the open block that is computed from specification functions of the inputs, not from the "
    "implementation's own variables. The lift from the per-call contract to 'every Einsum once, in order, "
    "contiguous, pairwise legal' is an induction over the call sequence stated in DESIGN.md.")
TRUSTED = ["observers of Program/Hardware/Component are heap-independent during add_einsum (assumed contracts)",
           "induction over the call history (meta-lemma)"]
_mods = None


def _sidecars():
    global _mods
    if _mods is None:
        _mods = [importlib.import_module(m) for m in SIDECARS]
    return _mods


def refute(uni, ob, replay_dir):
    return common.native_refute(uni, _sidecars(), ob, replay_dir, limit=3000)


_FUNCTIONAL = {"compute", "intersector", "sequencer"}


def _oracle(doc, blocks):
    """legality of the REPORTED blocks against the specification alone (YAML as loaded by ruamel, aliases resolved)"""
    errs = []
    einsums = [e.split("[")[0].strip() for e in doc["einsum"]["expressions"]]
    if [e for b in blocks for e in b] != einsums:
        errs.append("reported blocks %r are not the Einsums %r once each, in program order" % (blocks, einsums))
    if any(len(b) == 0 for b in blocks):
        errs.append("empty block")

    def config(e):
        return [b["config"] for b in doc["bindings"][e] if "config" in b][0]

    def prefix(e):
        loop = ((doc.get("mapping") or {}).get("loop-order") or {}).get(e)
        if loop is None:
            return None          # default loop order: not recomputed here
        space = ((doc.get("mapping") or {}).get("spacetime") or {}).get(e, {}).get("space") or []
        space = [str(x).split(".")[0] for x in space]
        return loop[:loop.index(space[0])] if space else loop

    def functional(level, acc):
        for comp in level.get("local") or []:
            if str(comp["class"]).lower() in _FUNCTIONAL:
                acc.add(comp["name"])
        for sub in level.get("subtree") or []:
            functional(sub, acc)
        return acc

    def bound(e):
        func = functional(doc["architecture"][config(e)][0], set())
        return {b["component"] for b in doc["bindings"][e] if "component" in b and b.get("bindings") and b["component"] in func}
    for blk in blocks:
        for i, e1 in enumerate(blk):
            for e2 in blk[i + 1:]:
                if e1 not in doc["bindings"] or e2 not in doc["bindings"]:
                    continue
                if config(e1) != config(e2):
                    errs.append("%s and %s share a block across configurations" % (e1, e2))
                if prefix(e1) is not None and prefix(e2) is not None and prefix(e1) != prefix(e2):
                    errs.append("%s and %s share a block with temporal prefixes %r / %r" % (e1, e2, prefix(e1), prefix(e2)))
                if bound(e1) & bound(e2):
                    errs.append("%s and %s share a block but both bind %s" % (e1, e2, sorted(bound(e1) & bound(e2))))
    return errs


def _emitted_blocks(tier):
    """the blocks REPORTED by the emitted program (the metrics["blocks"] literal) of real compilations: the Fusion
    histories of the sidecar generator (quick: every 9th), variants whose later Einsums re-use a component entry through
    a YAML alias, and the repository's accelerator specifications"""
    import ast as _ast
    import re
    from ruamel.yaml import YAML
    from contracts import fusion as fz
    specs = []
    for n, h in enumerate(fz._histories(3)):
        if tier != "thorough" and n % 9:
            continue
        specs.append(("history %s" % (h,), fz._yaml(h)))
    # alias variants: the second (and third) Einsum re-uses the first Einsum's component entry by alias
    base = fz._yaml([("A", "N", "0", "MKN"), ("A", "N", "0", "MKN"), ("A", "N", "1", "MKN")])
    first = "  - component: FPMul0\n    bindings:\n    - op: mul\n"
    if base.count(first) >= 2:
        i = base.index(first)
        ali = base[:i] + "  - &mul\n    component: FPMul0\n    bindings:\n    - op: mul\n" + base[i + len(first):]
        ali = ali.replace(first, "  - *mul\n", 1)
        specs.append(("component entry of the second Einsum is an alias of the first's", ali))
    for name, txt in common.accelerator_specs():
        specs.append((name, txt))
    ev, fails, samples = 0, [], []
    for name, y in specs:
        try:
            text = str(common.compile_full(y, fill_spacetime=False))
        except Exception:      # noqa
            try:
                text = str(common.compile_full(y))
            except Exception:      # noqa
                continue
        m = re.findall(r'^metrics\["blocks"\] = (.*)$', text, flags=re.M)
        if len(m) != 1:
            fails.append({"name": "bounded/reported-blocks", "detail": "%s: %d metrics[\"blocks\"] lines" % (name[:80], len(m)),
                          "witness": {"spec": name, "yaml": y[:1500]}})
            continue
        ev += 1
        blocks = _ast.literal_eval(m[0])
        errs = _oracle(YAML(typ="safe").load(y), blocks)
        if len(samples) < 2:
            samples.append({"spec": name[:80], "reported_blocks": blocks})
        if errs:
            fails.append({"name": "bounded/reported-blocks", "detail": "%s: %s" % (name[:80], errs[0]),
                          "witness": {"spec": name, "reported_blocks": blocks, "problems": errs[:4], "yaml": y[:1500]}})
    return ev, fails[:6], samples


def bounded(uni, tier, seed):
    ev0, f0, s0 = _emitted_blocks(tier)
    if tier != "thorough":
        return {"evaluations": ev0, "distinct_nontrivial": ev0, "failures": f0, "samples": s0,
                "rule": "the metrics[\"blocks\"] literal of real metrics-mode compilations (Fusion histories of <= 3 Einsums, "
                        "every 9th; a variant whose later Einsum re-uses a component entry through a YAML alias; the "
                        "repository's accelerator specifications) checked against the specification alone: every Einsum "
                        "once, in program order, and pairwise same configuration / temporal prefix / disjoint functional "
                        "components (compute, intersector, sequencer) inside a block (bounded)"}
    ev, failures, per = common.native_sweep(uni, _sidecars(), TARGETS, limit=20000)
    ev, failures = ev + ev0, failures + f0
    return {"evaluations": ev, "distinct_nontrivial": ev, "failures": failures,
            "rule": "every history of <= 3 Einsums over 2 configs x 2 space/time splits x 4 component sets fed to the "
                    "real Fusion with real Program/Hardware objects; the sidecar contract evaluated natively "
                    "(bounded; not counted as proved)",
            "samples": [{"function": k, "inputs": v} for k, v in per.items()]}
