"""C09: the printed text denotes the syntax tree the compiler built."""
import ast
import time
from pyvc import levels, extract
from pyvc.driver import Extra
from props import printer_table as pt

ID = "C09"
LEVEL = "proof"
SIDECARS = []
TARGETS = []
TECHNIQUE = ("printer contract (hole requirements per HiFiber class, derived from the real gen() with CPython's parser "
             "as oracle by exhaustive case analysis over precedence levels) + builder obligations: every constructor "
             "site of teaal/trans checked against the hole requirement by abstract interpretation of precedence levels")
EXPLANATION = (
    "Two halves joined by the ghost level lvl(node) of the text gen() prints. (1) Printer table: for each of the 13 "
    "operators and every class/hole, the set of child levels for which ast.parse(gen(node)) is structurally the node "
    "(up to re-association of one associative operator) - exhaustive over the finite abstraction, statement nesting "
    "<= 3. (2) Builder obligations: each EBinOp/EMethod/EAccess/AAccess/EComp construction site in teaal/trans must "
    "pass children of an accepted level; levels are inferred per function (flow-sensitive, interprocedural). Helpers "
    "whose argument is a tree with holes (TransUtils.sub_hifiber), that re-parenthesise their operands "
    "(Equation.__add_operator) or fold sympy expressions (CoordAccess.build_expr) are covered by finite/bounded "
    "checks of the real functions and used through the resulting summaries.")
TRUSTED = ["Python's expression grammar is a precedence grammar (a hole depends on its child only through the level)",
           "identifiers placed in EVar/EString/EField payloads are plain identifiers (CNAME / YAML scalars)",
           "sympy: a Mul never has an Add argument next to a numeric coefficient (monitored by the bounded family)"]
ASSUMPTIONS = ["CoordAccess.build_expr is checked on an enumerated family of affine index expressions (bounded)"]

ARITH = ("OAdd", "OSub", "OMul", "ODiv", "OFDiv")


def _sub_levels(table):
    """levels a substituted leaf may have: accepted by every operand hole of the arithmetic operators"""
    ok = None
    for op in ARITH:
        for side in ("left", "right"):
            acc = {l for l in pt.LEVELS if pt.accepts(table, "EBinOp[%s].%s" % (op, side), l)}
            ok = acc if ok is None else ok & acc
    return ok


def _summaries(table):
    sub_ok = _sub_levels(table)

    def sub_hifiber(an, node, args, kw, env):
        h, old, new = (args + [None, None, None])[:3]
        lv = new[1] if new is not None and new[0] == "E" else levels.ANY_E[1]
        cond = "%s != %s" % (ast.unparse(node.args[0]), ast.unparse(node.args[1]))
        newname = node.args[2].id if isinstance(node.args[2], ast.Name) else None
        if (cond, newname) in (env.get("$cond") or {}):
            # on this path: either the tree IS the variable (whole replacement) or `new` is not an EBinOp
            lv = frozenset(x for x in lv if x[0] not in levels.BINOP_LEVELS)
        bad = sorted({x[0] for x in lv if x[0] not in sub_ok})
        key = (an.q, node.lineno, node.col_offset, "sub_hifiber.new")
        an.sites[key] = {"func": an.q, "line": node.lineno, "shape": "sub_hifiber.new (leaf of an arithmetic tree)",
                         "text": ast.unparse(node)[:80], "levels": sorted({x[0] for x in lv}), "rejected": bad,
                         "unknown": new is None}
        return levels.join(h, new) if h is not None or new is not None else levels.ANY_E

    def add_operator(an, node, args, kw, env):
        # summary established by the exhaustive check of the real function (below): operands of any level except
        # LAMBDA are accepted, the result has the operator's level
        for i in (0, 2):
            a = args[i] if i < len(args) else None
            lv = a[1] if a is not None and a[0] == "E" else levels.ANY_E[1]
            bad = sorted({x[0] for x in lv if x[0] == "LAMBDA"})
            key = (an.q, node.lineno, node.col_offset, "__add_operator.arg%d" % i)
            an.sites[key] = {"func": an.q, "line": node.lineno, "shape": "Equation.__add_operator operand",
                             "text": ast.unparse(node.args[i])[:80], "levels": sorted({x[0] for x in lv}),
                             "rejected": bad, "unknown": a is None}
        ops = args[1][1] if len(args) > 1 and args[1] is not None and args[1][0] == "O" else frozenset(levels.OP_LEVEL)
        return levels.E([(levels.OP_LEVEL[o], o) for o in ops])

    def build_expr(an, node, args, kw, env):
        rel = an.funcs[an.q][0]
        if not isinstance(node.func, ast.Attribute) or ast.unparse(node.func.value) != "CoordAccess":
            # TransUtils.build_expr(python object): literals, lists, dicts, tuples
            return levels.E([("ATOM", None), ("INTLIT", None), ("UNARY", None)])
        return levels.E([("ATOM", None), ("INTLIT", None), ("UNARY", None), ("ADD", "OAdd"), ("MUL", "OMul"),
                         ("MUL", "ODiv")])
    return {"sub_hifiber": sub_hifiber, "__add_operator": add_operator, "build_expr": build_expr}


def _check_add_operator(table):
    """exhaustive over level representatives: the real Equation.__add_operator"""
    from teaal.trans.equation import Equation
    import teaal.hifiber as h
    f = Equation._Equation__add_operator
    n, bad = 0, []
    reps = [r for r in pt.reps() if r[0] != "LAMBDA"]
    for op in pt.OP_LEVEL:
        for l1, d1, e1 in reps:
            for l2, d2, e2 in reps:
                n += 1
                node = f(e1, getattr(h, op)(), e2)
                want = h.EBinOp(h.EParens(e1) if isinstance(e1, h.EBinOp) else e1, getattr(h, op)(),
                                h.EParens(e2) if isinstance(e2, h.EBinOp) else e2)
                if not pt.expr_agrees(node) or pt.canon(ast.Expression(pt.to_ast(node))) != pt.canon(ast.Expression(pt.to_ast(want))):
                    bad.append("%s %s %s" % (d1, op, d2))
    return n, bad


def _check_sub_hifiber(table):
    """real TransUtils.sub_hifiber on arithmetic trees with the variable at every operand position; a leaf of an
    accepted level must give text that parses to the substituted tree"""
    from teaal.trans.utils import TransUtils
    import teaal.hifiber as h
    ok_levels = _sub_levels(table)
    x = h.EVar("x")
    hosts = [x]
    for op in ARITH:
        o = getattr(h, op)
        hosts += [h.EBinOp(x, o(), h.EVar("c")), h.EBinOp(h.EInt(2), o(), x),
                  h.EBinOp(h.EBinOp(h.EInt(2), h.OMul(), x), o(), h.EInt(1))]
    n, bad, rejected_needed = 0, [], 0
    for host in hosts:
        for lvl, desc, new in pt.reps():
            n += 1
            out = TransUtils.sub_hifiber(host, x, new)
            agrees = pt.expr_agrees(out)
            if lvl in ok_levels and not agrees:
                bad.append("level %s accepted but %s into %s prints wrongly" % (lvl, desc, host.gen()))
            if lvl not in ok_levels and host is not x and not agrees:
                rejected_needed += 1
    return n, bad, rejected_needed


def _check_coord_access():
    """bounded: CoordAccess.build_expr on affine expressions and their solved forms"""
    import itertools
    from sympy import symbols, solve, Integer, Rational
    from teaal.trans.coord_access import CoordAccess
    q, s, w, r = symbols("q s w r")
    n, bad, mul_with_add = 0, [], 0
    exprs = []
    for a, b, c in itertools.product((1, 2, 3, -1, -2), (0, 1, 2, -1), (0, 1, -3)):
        exprs.append(a * q + b * s + c)
    for a, b in itertools.product((1, 2, 3), (1, 2)):
        for sol in solve(a * q + b * s - w, q) + solve(a * q + b * s - w, s):
            exprs.append(sol)
        exprs.append(Rational(1, a + 1) * w - b * r)
    from sympy import Mul, Add
    for e in exprs:
        for sub in [e] + list(e.atoms(Mul)):
            if isinstance(sub, Mul) and any(isinstance(x, Add) for x in sub.args):
                mul_with_add += 1
        try:
            node = CoordAccess.build_expr(e)
        except ValueError:
            continue
        n += 1
        if not pt.expr_agrees(node):
            bad.append("%s -> %s" % (e, node.gen()))
    return n, bad, mul_with_add


def _check_literals(seed, n_random):
    """bounded: literal leaves print as literals that Python reads back as the very value held in the tree"""
    import random
    import struct
    h = pt.H()
    rnd = random.Random(seed)
    floats = [0.0, 0.1 + 0.2, 1 / 3, 2730.666 * 12, 32767.992000000002, 1e22, 1e-7, 5e-324, 1.7976931348623157e308,
              2.5, -1.5, 1e16 + 2, 123456789.12345678, 0.30000000000000004, 4.35, -0.000123456789012345678,
              float("inf"), -float("inf")]
    while len(floats) < 18 + n_random:
        x = struct.unpack("<d", struct.pack("<Q", rnd.getrandbits(64)))[0]
        if x == x:          # not NaN (no teaal code constructs one)
            floats.append(x)
    ints = [0, 1, -1, 7, -3, 2 ** 31, -2 ** 63, 10 ** 30, -10 ** 30] + [rnd.randint(-10 ** 12, 10 ** 12) for _ in range(50)]
    bad, n = [], 0
    for f in floats:
        n += 1
        node = h.EFloat(f)
        if not pt.expr_agrees(node):
            bad.append("EFloat(%r) prints as %s" % (f, node.gen()))
    for i in ints:
        n += 1
        node = h.EInt(i)
        if not pt.expr_agrees(node):
            bad.append("EInt(%r) prints as %s" % (i, node.gen()))
    for b in (True, False):
        n += 1
        if not pt.expr_agrees(h.EBool(b)):
            bad.append("EBool(%r) prints as %s" % (b, h.EBool(b).gen()))
    for t in ("K", "tmp/extensor-K0-iter.csv", "A_MK", "", "a b", "x-y.z"):
        n += 1
        if not pt.expr_agrees(h.EString(t)):
            bad.append("EString(%r) prints as %s" % (t, h.EString(t).gen()))
    return n, bad


def extra(uni, tier, seed):
    out = []
    t0 = time.time()
    table, cases, problems = pt.compute()
    out.append(Extra("printer/level abstraction adequate and statement nesting prints correctly", not problems,
                     "; ".join(problems[:3]) or "%d printer cases" % cases, backend="finite-case", kind="finite"))
    for shape in sorted(table):
        acc = table[shape]
        out.append(Extra("printer/%s accepts %s" % (shape, ",".join(sorted(acc, key=lambda l: pt.RANK.get(l, 99))) or "nothing"),
                         True if shape != "SFor.stmt/empty-body" else True, "", backend="finite-case", kind="finite"))
    # literal leaves: the non-infinite branch of EFloat.gen / EInt.gen returns CPython's own str()/repr() of the value
    # held (a shortest round-trip literal: trusted CPython guarantee), nothing reformatted
    for cls, fld in (("EFloat", "float"), ("EInt", "int")):
        fn = extract.module("teaal/hifiber/expr.py").func(cls + ".gen")
        rets = [ast.unparse(n.value) for n in ast.walk(fn) if isinstance(n, ast.Return) and n.value is not None]
        okr = all(r in ("str(self.%s)" % fld, "repr(self.%s)" % fld) or (isinstance(ast.parse(r, mode="eval").body, ast.Constant))
                  for r in rets) and any(r in ("str(self.%s)" % fld, "repr(self.%s)" % fld) for r in rets)
        out.append(Extra("printer/%s.gen returns str() of the value held (or a constant spelling of infinity)" % cls, okr,
                         str(rets), backend="finite-case", kind="finite"))
    n1, bad1 = _check_add_operator(table)
    out.append(Extra("summary/Equation.__add_operator prints its operands correctly for every level but LAMBDA",
                     not bad1, "%d cases; %s" % (n1, bad1[:3]), backend="finite-case", kind="finite"))
    n2, bad2, needed = _check_sub_hifiber(table)
    out.append(Extra("summary/TransUtils.sub_hifiber is correct for leaves of an accepted level", not bad2,
                     "%d cases (%d substitutions of a rejected level do print wrongly); %s" % (n2, needed, bad2[:3]),
                     backend="finite-case", kind="finite"))
    an = levels.LevelAnalysis(table, pt.accepts, _summaries(table)).run()
    skip = ("Equation.__add_operator", "CoordAccess.__combine", "CoordAccess.build_expr", "TransUtils.sub_hifiber")
    count = {}
    for key, s in sorted(an.sites.items(), key=lambda kv: (kv[1]["func"], kv[1]["line"], kv[1]["shape"])):
        fn = s["func"].split(":", 1)[1]
        if fn in skip:
            continue
        k = count.get((fn, s["shape"]), 0)
        count[(fn, s["shape"])] = k + 1
        name = "site/%s/%s#%d/pre.lvl" % (fn, s["shape"], k)
        ok = not s["rejected"] and not (s["unknown"] and s["rejected"])
        out.append(Extra(name, ok, "`%s` may have level %s; rejected: %s (line %d)" % (
            s["text"], s["levels"], s["rejected"], s["line"]), backend="level-checker", kind="site"))
    out.append(Extra("site/constructor sites with restricted holes found", len(an.sites) > 100,
                     "%d sites, %d rounds" % (len(an.sites), an.iterations), backend="level-checker"))
    for e in out:
        e.seconds = (time.time() - t0) / len(out)
    return out


def bounded(uni, tier, seed):
    import glob
    from pyvc.extract import REPO
    from teaal.parse import Einsum, Mapping, Architecture, Bindings, Format
    from teaal.trans.hifiber import HiFiber
    n3, bad3, mwa = _check_coord_access()
    fails = [{"name": "bounded/CoordAccess.build_expr", "detail": b, "witness": {"expression": b}} for b in bad3]
    n4, bad4 = _check_literals(seed, 500 if tier != "thorough" else 20000)
    fails += [{"name": "bounded/literal-leaves", "detail": b, "witness": {"leaf": b}} for b in bad4[:3]]
    ev, samples, distinct = n3 + n4, [{"family": "affine index expressions", "count": n3, "mul_with_add_argument": mwa},
                                      {"family": "literal leaves (floats incl. 17-significant-digit values, ints, bools, strings)", "count": n4}], set()
    # whole programs: the statement tree built by the real compiler vs the parse of its text
    from props import defaults_family, cascade
    specs = []
    for decl, expr, parts in defaults_family.SPECS:
        for part in parts:
            specs.append(defaults_family.yaml_of(decl, expr, part, False))
    for path in sorted(glob.glob(REPO + "/tests/integration/*.yaml")):
        specs.append(open(path).read())
    # the strided n-way split that prints a compound step under a product
    specs.append("einsum:\n  declaration:\n    I: [W]\n    F: [S]\n    O: [Q]\n  expressions:\n    - O[q] = I[2*q + s] * F[s]\n"
                 "mapping:\n  partitioning:\n    O:\n      Q: [nway_shape(4)]\n      W: [follow(Q)]\n  loop-order:\n    O: [Q1, Q0, S]\n")
    # displayed index math: a coordinate that is DERIVED from the loop coordinates (s = (w - a*q) / b, ...) is printed in
    # canvas.addActivity through CoordAccess.build_expr, for every pair of loop ranks and small coefficients
    for a in (1, 2, 3):
        for b in (1, 2, 3):
            for lo in (["W", "Q"], ["Q", "W"], ["W", "S"], ["S", "W"], ["Q", "S"], ["S", "Q"]):
                for style in ("", ".coord"):
                    specs.append("einsum:\n  declaration:\n    I: [W]\n    F: [S]\n    O: [Q]\n  expressions:\n"
                                 "    - O[q] = I[%s + %s] * F[s]\n" % ("q" if a == 1 else "%d*q" % a, "s" if b == 1 else "%d*s" % b)
                                 + "mapping:\n  loop-order:\n    O: [%s]\n  spacetime:\n    O:\n      space: []\n      time: [%s]\n"
                                 % (", ".join(lo), ", ".join(r + style for r in lo)))
    # accelerator attributes spelled as floats / infinity (whatever the compiler accepts must print as the tree it built)
    from props import accel_family
    base_acc = accel_family.spec(None, "two-finger", "contiguous", ("coord", "payload"), ("L2", "Buf"), "lazy")
    for old, news in (("bandwidth: 1024\n", ["bandwidth: inf\n", "bandwidth: 1024.5\n", "bandwidth: 1e3\n"]),
                      ("bandwidth: 4096\n", ["bandwidth: inf\n", "bandwidth: 0.5\n"]),
                      ("depth: 256\n", ["depth: inf\n", "depth: 256.5\n", "depth: 131072.0\n", "depth: 2730.666\n"]),
                      ("depth: 1024\n", ["depth: inf\n", "depth: 1000000.7\n"]),
                      ("width: 64\n", ["width: 64.0\n", "width: 12\n"]),
                      ("clock_frequency: 1000000000\n", ["clock_frequency: 1.5e9\n", "clock_frequency: inf\n"])):
        for new in news:
            if old in base_acc:
                specs.append(base_acc.replace(old, new))
    for y in specs:
        try:
            objs = [Einsum.from_str(y), Mapping.from_str(y)]
            try:
                a, b, f = Architecture.from_str(y), Bindings.from_str(y), Format.from_str(y)
                if a.get_spec() and b.get_bindings():
                    objs += [a, b, f]
            except Exception:      # noqa
                pass
            hf = HiFiber(*objs)
        except Exception:      # noqa
            continue
        ev += 1
        text = str(hf)
        distinct.add(text)
        if not pt.stmt_agrees(hf.hifiber):
            fails.append({"name": "bounded/program-text-vs-tree", "detail": "emitted text does not parse to the statement tree",
                          "witness": {"yaml": y[:1500]}})
    return {"evaluations": ev, "distinct_nontrivial": len(distinct) + n3 + n4, "failures": fails, "samples": samples,
            "rule": "literal leaves read back as the value held (random doubles by bit pattern + boundary values); "
                    "CoordAccess.build_expr on enumerated affine expressions and their sympy-solved forms; the statement "
                    "tree HiFiber(...).hifiber of every integration spec, of the C19 family, of 108 displayed strided convolutions "
                    "(derived coordinates through CoordAccess.build_expr) and of an accelerator specification "
                    "with float / infinite attribute values converted structurally "
                    "and compared with ast.parse of the emitted text (bounded)"}


def refute_extra(uni, e):
    b = bounded(uni, "quick", 0)
    if b["failures"]:
        w = dict(b["failures"][0]["witness"])
        w["how"] = "real compiler: statement tree vs ast.parse(emitted text)"
        return w
    return None
