"""C14: execution time is the bottleneck-per-block roll-up of component times."""
import ast
import glob
import itertools
import time
from pyvc import extract
from pyvc.driver import Extra

ID = "C14"
LEVEL = "exploration"
SIDECARS = ["contracts.rates", "contracts.arch", "contracts.rollup"]
TARGETS = ["Hardware.get_config", "Hardware.get_frequency", "Component.__init__", "Component.get_num_instances",
           "MemoryComponent.get_bandwidth", "Architecture.__init__", "Collector.__build_time", "SBlock.__init__", "SBlock.add"]
TECHNIQUE = ("contracts (SMT) on Collector.__build_time (sum over blocks in order of 0 / the single component's time / max over "
             "every component of the block once), on the rate getters and on Architecture.__init__'s instance count + site "
             "contracts on the five time sites (structural, from the AST) + bounded run-time check of the roll-up VALUE "
             "on the real Collector.__build_time and of instance counts / divisors on the real Architecture/Hardware")
EXPLANATION = (
    "Proved (SMT, contracts/rollup.py) on the real Collector.__build_time for every list of blocks: the dump assigns "
    "metrics['time'] the left-nested sum, in block order, of one block time per fusion block (stated as the recurrence "
    "total[0] = bt[0], total[b+1] = total[b] + bt[b+1]); each block time is 0 when the block has no component, the "
    "accumulated time of its only component (the leaked loop variable is shown to be that key), or max(...) with exactly "
    "one argument per component that has a time in some Einsum of the block, each once, in sorted order; the key set of "
    "the accumulator is exactly those components (element-wise loop invariants in both directions). What each "
    "accumulated component time CONTAINS - one term metrics[e][c]['time'] per (Einsum, component) of the block, summed - "
    "is not part of the SMT statement; it is decided by a BOUNDED check: the real __build_time on every block structure "
    "of <= 3 blocks x <= 3 Einsums x <= 3 components (with repetition patterns), its result expression tree evaluated "
    "under distinct prime component times against an independent roll-up. Rates (clock of the Einsum's own "
    "configuration, declared bandwidth, declared instance count) are proved on the getters; exactly-once registration "
    "at the five time sites is a structural site contract over the AST; the instance count N + 1 is the per-visit "
    "lemma of Architecture.__init__ plus bounded level-name / divisor families.")
TRUSTED = ["Python evaluates '+', '/', max() of the emitted expression as arithmetic (den)",
           "instance count of a component = count of the level that declares it (not multiplied by ancestors)"]
ASSUMPTIONS = ["bounded: block structures up to 3 x 3 x 3; level names NAME and NAME[0..N] for N <= 12"]

SITES = ["__build_compute", "__build_intersections", "__build_merges", "__build_sequencers", "__build_traffic"]


def _site_contract(fn):
    """returns list of (ok, detail) for every `... AAccess(X, EString('time'))` assignment in the function"""
    res = []
    src_lines = {}
    for node in ast.walk(fn):
        if isinstance(node, (ast.For, ast.While)):
            body = node.body
            stmts = [s for s in ast.walk(node) if isinstance(s, ast.stmt)]
            # direct children statements of this loop body (flattened one level of ifs)
            flat = []
            for s in body:
                flat.append(s)
            time_assigns = [s for s in flat if isinstance(s, ast.Assign) and isinstance(s.value, ast.Call)
                            and ast.unparse(s.value.func) == "AAccess" and len(s.value.args) == 2
                            and ast.unparse(s.value.args[1]) == "EString('time')"]
            if not time_assigns:
                continue
            txt = [ast.unparse(s) for s in flat]
            # (1) the time expression: EBinOp(count, ODiv(), EInt(rate * comp.get_num_instances()))
            tdefs = [s for s in flat if isinstance(s, ast.Assign) and len(s.targets) == 1
                     and isinstance(s.targets[0], ast.Name) and s.targets[0].id == "time"]
            ok1, comp = False, None
            for t in tdefs:
                v = t.value
                if isinstance(v, ast.Call) and ast.unparse(v.func) == "EBinOp" and len(v.args) == 3 \
                        and ast.unparse(v.args[1]) == "ODiv()" and isinstance(v.args[2], ast.Call) \
                        and ast.unparse(v.args[2].func) == "EInt":
                    den = v.args[2].args[0]
                    if isinstance(den, ast.Name):
                        dd = [s for s in flat if isinstance(s, ast.Assign) and isinstance(s.targets[0], ast.Name)
                              and s.targets[0].id == den.id]
                        den = dd[-1].value if dd else den
                    if isinstance(den, ast.BinOp) and isinstance(den.op, ast.Mult):
                        sides = [ast.unparse(den.left), ast.unparse(den.right)]
                        inst = [x for x in sides if x.endswith(".get_num_instances()")]
                        rate = [x for x in sides if x.endswith(".get_frequency(einsum)") or x.endswith(".get_bandwidth()")]
                        if len(inst) == 1 and len(rate) == 1:
                            comp = inst[0][:-len(".get_num_instances()")]
                            if rate[0].endswith(".get_bandwidth()") and rate[0][:-len(".get_bandwidth()")] != comp:
                                comp = None
                            ok1 = comp is not None
            # (2) the assignment statement is emitted once and (3) the same component is registered exactly once
            adds = [t for t in txt if t.startswith("block.add(SAssign(metrics_time, time))")]
            regs = [t for t in txt if t.startswith("self.fusion.add_component(einsum, ")]
            ok2 = len(adds) == 1 and len(time_assigns) == 1
            ok3 = False
            if len(regs) == 1 and comp is not None:
                arg = regs[0][len("self.fusion.add_component(einsum, "):-1]
                ok3 = arg == comp + ".get_name()" or (arg == "src" and comp == "component")
            res.append((ok1, "time = count / (rate * %s.get_num_instances())" % comp, node.lineno))
            res.append((ok2, "one time assignment emitted per component and Einsum", node.lineno))
            res.append((ok3, "the timed component is registered exactly once with fusion.add_component", node.lineno))
    return res


def extra(uni, tier, seed):
    out = []
    mod = extract.module("teaal/trans/collector.py")
    for name in SITES:
        fn = mod.func("Collector." + name)
        rs = _site_contract(fn)
        if not rs:
            out.append(Extra("site/Collector.%s/time-site-found" % name, False, "no `time` assignment found"))
        for i, (ok, what, line) in enumerate(rs):
            out.append(Extra("site/Collector.%s/%s" % (name, what), ok, "loop at line %d" % line, backend="structural"))
    # every "time" assignment in the collector is one of the five sites or the roll-up itself
    others = []
    for fn in mod.methods("Collector"):
        if "EString('time')" in ast.unparse(fn) and fn.name not in SITES + ["_Collector__build_time", "__build_time"]:
            others.append(fn.name)
    out.append(Extra("site/no other function writes a component time", not others, str(others)))
    # num instances are passed from the level that declares the component
    hw = extract.module("teaal/ir/hardware.py").func("Hardware.__build_level")
    src = ast.unparse(hw)
    out.append(Extra("site/Hardware.__build_level passes the level's count to each local component",
                     "self.__build_component(comp, tree['num'])" in src and "Level(tree['name'], tree['num']" in src, ""))
    src = ast.unparse(extract.module("teaal/ir/hardware.py").func("Hardware.__build_component"))
    out.append(Extra("site/Hardware.__build_component hands the level's count to the component constructor",
                     "class_(name, num_instances, local['attributes'], binding)" in src and "num_instances =" not in src, ""))
    cm = extract.module("teaal/ir/component.py")
    src = ast.unparse(cm.func("MemoryComponent.__init__"))
    out.append(Extra("site/MemoryComponent.__init__ takes bandwidth from the component's own attributes, unscaled",
                     "self.bandwidth = self._check_attr(attrs, 'bandwidth', int)" in src and src.count("self.bandwidth") == 1
                     and "super().__init__(name, num_instances, attrs, bindings)" in src, ""))
    # no subclass overrides the rate getters or rewrites the fields they read
    bad = []
    for node in ast.walk(cm.tree):
        if isinstance(node, ast.ClassDef):
            for f in node.body:
                if isinstance(f, ast.FunctionDef):
                    if f.name in ("get_num_instances", "get_bandwidth") and node.name not in ("Component", "MemoryComponent"):
                        bad.append("%s.%s overrides" % (node.name, f.name))
                    for n in ast.walk(f):
                        if isinstance(n, ast.Attribute) and isinstance(n.ctx, ast.Store) and n.attr in ("num_instances", "bandwidth") \
                                and not (f.name == "__init__" and node.name in ("Component", "MemoryComponent")):
                            bad.append("%s.%s writes .%s" % (node.name, f.name, n.attr))
    out.append(Extra("site/instance count and bandwidth are written only by the verified constructors and read through "
                     "the verified getters", not bad, str(bad)))
    return out


# ---------------------------------------------------------------------------------------------- bounded part
def den(e, T):
    """value of an expression tree built by __build_time under component times T[(einsum, comp)]"""
    import teaal.hifiber as h
    if isinstance(e, h.EInt):
        return e.int
    if isinstance(e, h.EParens):
        return den(e.expr, T)
    if isinstance(e, h.EBinOp):
        a, b = den(e.expr1, T), den(e.expr2, T)
        if isinstance(e.op, h.OAdd):
            return a + b
        raise ValueError("unexpected operator in roll-up: " + e.op.gen())
    if isinstance(e, h.EFunc) and e.name == "max":
        return max(den(a.expr, T) for a in e.args)
    if isinstance(e, h.EAccess):
        k = e.gen()
        # metrics["E"]["c"]["time"]
        parts = [p.strip('"') for p in k.replace("]", "").split("[")[1:]]
        if len(parts) == 3 and parts[2] == "time":
            return T[(parts[0], parts[1])]
    raise ValueError("unexpected node in roll-up: " + e.gen())


PRIMES = [2, 3, 5, 7, 11, 13, 17, 19, 23, 29, 31, 37, 41, 43, 47, 53, 59, 61, 67, 71, 73, 79, 83, 89, 97, 101, 103]


def _rollup_cases(limit=None):
    """(blocks, component_dict): all partitions of <= 4 Einsums into contiguous blocks, components from 3 names,
    including an Einsum without components and a component listed by several Einsums"""
    names = ["E0", "E1", "E2", "E3"]
    comps = ["A", "B", "C"]
    subsets = [(), ("A",), ("B",), ("A", "B"), ("B", "A"), ("A", "B", "C"), ("C",)]
    n = 0
    for k in range(1, 5):
        es = names[:k]
        for cut in itertools.product([0, 1], repeat=k - 1):
            blocks, cur = [], [es[0]]
            for i, c in enumerate(cut):
                if c:
                    blocks.append(cur)
                    cur = []
                cur.append(es[i + 1])
            blocks.append(cur)
            for assign in itertools.product(subsets, repeat=k):
                n += 1
                if limit and n > limit:
                    return
                yield blocks, {e: list(a) for e, a in zip(es, assign)}


class HarnessInapplicable(Exception):
    pass


class _StubMetrics:
    def __init__(self, names):
        import teaal.ir.component as comp
        kinds = [comp.DRAMComponent, comp.MergerComponent, comp.CacheComponent, comp.BuffetComponent]
        self.comps = {}
        for i, n in enumerate(names):
            c = object.__new__(kinds[i % len(kinds)])
            c.name, c.num_instances, c.attrs, c.bindings = n, 1, {}, {}
            self.comps[n] = c

    def get_hardware(self):
        return self

    def get_component(self, name):
        return self.comps[name]

    def get_components(self, einsum, class_):
        return [c for c in self.comps.values() if isinstance(c, class_)]


def _check_rollup(tier, seed):
    from teaal.trans.collector import Collector
    from teaal.ir.fusion import Fusion
    import teaal.hifiber as h
    ev, fails, distinct, samples = 0, [], set(), []
    stride = 1 if tier == "thorough" else 7
    for idx, (blocks, cd) in enumerate(_rollup_cases()):
        if (idx + seed) % stride:
            continue
        fus = object.__new__(Fusion)
        fus.blocks, fus.component_dict = blocks, cd
        col = object.__new__(Collector)
        col.fusion = fus
        # a roll-up that consults the hardware about a component is answered with components that may legally be shared by
        # the Einsums of one block (memories and mergers; Fusion.add_einsum keeps functional units apart)
        col.metrics = _StubMetrics(sorted({c for cs in cd.values() for c in cs}))
        try:
            stmt = col._Collector__build_time()
        except AttributeError as ex:
            raise HarnessInapplicable("Collector.__build_time reads state the roll-up harness does not provide: %r" % (ex,))
        tassign = [s for s in stmt.stmts if isinstance(s, h.SAssign) and s.assn.gen() == 'metrics["time"]']
        T, p = {}, 0
        for e, cs in cd.items():
            for c in cs:
                T[(e, c)] = PRIMES[p % len(PRIMES)] * (1 + p // len(PRIMES) * 100)
                p += 1
        want = 0
        for b in blocks:
            per = {}
            for e in b:
                for c in cd[e]:
                    per[c] = per.get(c, 0) + T[(e, c)]
            want += max(per.values()) if per else 0
        ev += 1
        distinct.add(stmt.gen(0))
        try:
            got = den(tassign[0].expr, T) if len(tassign) == 1 else None
        except Exception as ex:      # noqa
            got = "error %r" % (ex,)
        if len(samples) < 2:
            samples.append({"blocks": blocks, "components": cd, "time": tassign[0].expr.gen() if tassign else None})
        if got != want:
            fails.append({"name": "bounded/rollup", "detail": "blocks %s components %s: roll-up evaluates to %s, expected %s"
                          % (blocks, cd, got, want), "witness": {"blocks": blocks, "component_dict": cd,
                                                                 "emitted": tassign[0].expr.gen() if tassign else None}})
            if len(fails) > 3:
                break
    return ev, len(distinct), fails, samples


def _check_instances():
    """instance counts from level names on the real Architecture parser and Hardware"""
    from teaal.parse import Architecture
    ev, fails = 0, []
    cases = [(None, "PE")] + [(n, "PE[0..%d]" % n) for n in range(0, 13)]
    # spellings with the inline whitespace the level grammar ignores
    cases += [(7, "PE [0..7]"), (7, "PE[0.. 7]"), (7, "PE[0..7 ]"), (3, "PE  [0..3]"), (None, "PE ")]
    for n, name in cases:
        y = ("architecture:\n  c:\n  - name: System\n    attributes:\n      clock_frequency: 10\n    subtree:\n"
             "    - name: %s\n      local:\n      - name: ALU\n        class: compute\n        attributes:\n          type: mul\n"
             "      subtree:\n      - name: Lane[0..%d]\n" % ('"%s"' % name, 2 if n is None else n))
        spec = Architecture.from_str(y).get_spec()
        lvl = spec["architecture"]["c"][0]["subtree"][0]
        want = 1 if n is None else n + 1
        ev += 1
        if lvl["num"] != want or lvl["name"] != "PE" or lvl["subtree"][0]["num"] != (3 if n is None else n + 1):
            fails.append({"name": "bounded/instances", "detail": "level name %s parsed to num=%r" % (name, lvl["num"]),
                          "witness": {"level_name": name, "num": lvl["num"]}})
    return ev, fails


def _check_corpus():
    """real metrics-mode compilations: every component time assigned in an Einsum's dump is used exactly once in the
    roll-up and every term of the roll-up was assigned; denominators are rate * instances of the spec"""
    import re
    from pyvc.extract import REPO
    from teaal.parse import Einsum, Mapping, Architecture, Bindings, Format
    from teaal.trans.hifiber import HiFiber
    ev, fails, samples = 0, [], []
    for path in sorted(glob.glob(REPO + "/tests/integration/*.yaml")):
        try:
            a, b, f = Architecture.from_file(path), Bindings.from_file(path), Format.from_file(path)
            if not (a.get_spec() and b.get_bindings()):
                continue
            text = str(HiFiber(Einsum.from_file(path), Mapping.from_file(path), a, b, f))
        except Exception:      # noqa
            continue
        ev += 1
        assigned = re.findall(r'^metrics\["(\w+)"\]\["(\w+)"\]\["time"\] = ', text, flags=re.M)
        m = re.search(r'^metrics\["time"\] = (.*)$', text, flags=re.M)
        used = re.findall(r'metrics\["(\w+)"\]\["(\w+)"\]\["time"\]', m.group(1)) if m else []
        if sorted(assigned) != sorted(used) or len(set(assigned)) != len(assigned):
            fails.append({"name": "bounded/corpus-exactly-once",
                          "detail": "%s: assigned component times %s vs roll-up terms %s" % (path.rsplit("/", 1)[1], sorted(assigned), sorted(used)),
                          "witness": {"spec": path}})
        if len(samples) < 2:
            samples.append({"spec": path.rsplit("/", 1)[1], "component_times": len(assigned)})
    return ev, fails, samples


_TWO_CFG = """
einsum:
  declaration:
    A: [K, M]
    T: [K, M]
    Z: [K, M]
  expressions:
  - T[k, m] = A[k, m]
  - Z[k, m] = T[k, m]
mapping:
  loop-order:
    T: [K, M]
    Z: [K, M]
  spacetime:
    T:
      space: []
      time: [K, M]
    Z:
      space: []
      time: [K, M]
format:
  Z:
    default:
      rank-order: [K, M]
      K:
        format: C
      M:
        format: C
        pbits: 32
architecture:
  cfgA:
  - name: System
    attributes:
      clock_frequency: %(fa)d
    subtree:
    - name: %(la)s
      local:
      - name: %(na)s
        class: compute
        attributes:
          type: add
  cfgB:
  - name: System
    attributes:
      clock_frequency: %(fb)d
    subtree:
    - name: %(lb)s
      local:
      - name: %(nb)s
        class: compute
        attributes:
          type: add
bindings:
  T:
  - config: cfgA
    prefix: tmp/T
  - component: %(na)s
    bindings:
    - op: add
  Z:
  - config: %(cz)s
    prefix: tmp/Z
  - component: %(nz)s
    bindings:
    - op: add
"""


def _check_divisors():
    """each component time divides by clock x instances OF THE CONFIGURATION THE EINSUM RUNS ON: two Einsums, two
    configurations whose compute unit sits under levels of different multiplicity (and clock), with the same or with
    different component names; the expected divisor is computed from the parameters alone"""
    import re
    from teaal.parse import Einsum, Mapping, Architecture, Bindings, Format
    from teaal.trans.hifiber import HiFiber
    ev, fails = 0, []
    for (ia, ib) in ((3, 7), (7, 3), (None, 4), (2, None), (5, 5)):
        for fa, fb in ((1000, 1000), (1000, 3000)):
            for same_name in (True, False):
                for cz in ("cfgB", "cfgA"):
                    na, nb = ("ALU", "ALU") if same_name else ("ALU0", "ALU1")
                    nz = nb if cz == "cfgB" else na
                    la = "PE" if ia is None else "PE[0..%d]" % ia
                    lb = "PE" if ib is None else "PE[0..%d]" % ib
                    y = _TWO_CFG % dict(fa=fa, fb=fb, la=la, lb=lb, na=na, nb=nb, cz=cz, nz=nz)
                    try:
                        text = str(HiFiber(Einsum.from_str(y), Mapping.from_str(y), Architecture.from_str(y),
                                           Bindings.from_str(y), Format.from_str(y)))
                    except Exception:      # noqa
                        continue
                    ev += 1
                    cnt = {"cfgA": 1 if ia is None else ia + 1, "cfgB": 1 if ib is None else ib + 1}
                    clk = {"cfgA": fa, "cfgB": fb}
                    want = {"T": clk["cfgA"] * cnt["cfgA"], "Z": clk[cz] * cnt[cz]}
                    for e_, comp in (("T", na), ("Z", nz)):
                        m = re.search(r'^metrics\["%s"\]\["%s"\]\["time"\] = .* / (\d+)$' % (e_, comp), text, flags=re.M)
                        got = int(m.group(1)) if m else None
                        if got != want[e_]:
                            # the recorded finding is specific: an Einsum on the configuration declared FIRST divides by its own
                            # clock times the INSTANCE COUNT of the same-named component of the configuration built LAST; any
                            # other wrong divisor (e.g. an Einsum on the last configuration that gets the first one's count) is
                            # not that finding
                            on_cfg = "cfgA" if e_ == "T" else cz
                            same = ("; cause=one-component-name-in-two-configurations"
                                    if same_name and on_cfg == "cfgA" and got == clk["cfgA"] * cnt["cfgB"] != want[e_] else "")
                            fails.append({"name": "bounded/divisor-of-the-einsums-own-configuration",
                                          "detail": "Einsum %s runs on %s (%s at %d Hz: divisor %d) but its %s time divides by %r%s"
                                                    % (e_, "cfgA" if e_ == "T" else cz, la if e_ == "T" or cz == "cfgA" else lb,
                                                       clk["cfgA" if e_ == "T" else cz], want[e_], comp, got, same),
                                          "witness": {"yaml": y, "einsum": e_, "expected_divisor": want[e_], "emitted_divisor": got}})
    return ev, fails[:6]


def bounded(uni, tier, seed):
    e1, d1, f1, s1 = _check_rollup(tier, seed)
    e2, f2 = _check_instances()
    e3, f3, s3 = _check_corpus()
    e4, f4 = _check_divisors()
    e3, f3 = e3 + e4, f3 + f4
    # instance counts over whole architecture trees, including subtrees shared through YAML aliases (family of C17)
    import random
    from props import C17
    e5, f5 = C17.check_arch_trees(random.Random(seed))
    e3, f3 = e3 + e5, f3 + [dict(f, name="bounded/instances") for f in f5]
    return {"evaluations": e1 + e2 + e3, "distinct_nontrivial": d1, "failures": f1 + f2 + f3, "samples": s1 + s3,
            "exhaustive": tier == "thorough",
            "rule": "real Collector.__build_time on every contiguous block structure of <= 4 Einsums x component lists "
                    "from 7 patterns (quick: every 7th), its expression tree evaluated with distinct prime component "
                    "times against an independent sum-of-max; level names NAME / NAME[0..N], N <= 12, through the real "
                    "Architecture parser (also spelled with inline whitespace); assigned-vs-used component times in the metrics "
                    "dump of the accelerator specs; divisors = clock x instances of the Einsum's own configuration over "
                    "two-configuration specifications (same / different component names, multiplicities, clocks); instance "
                    "counts over generated architecture trees with YAML-aliased subtrees"}


def refute_extra(uni, e):
    b = bounded(uni, "thorough", 0)
    if b["failures"]:
        return dict(b["failures"][0]["witness"], how="real Collector.__build_time / Architecture on enumerated inputs")
    return None
