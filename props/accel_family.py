"""A generated family of small accelerator specifications (one matrix-multiply Einsum) that varies what the metrics
code keys its trace names on: how K is partitioned (not / by shape / by occupancy), the intersector type and the rank it
is bound to, the layout of A's K rank(s) (contiguous / interleaved), which of coord / payload / elem are bound on chip, in
which buffers (cache, buffet, both) and with which style. Specifications the compiler rejects are skipped by the callers."""
import itertools


def spec(part, isect, layout, types, where, style, cbits=True, isect_rank=None, types_by_comp=None):
    nlev = 0 if part is None else part.count("(")
    kr = ["K"] if part is None else ["K%d" % l for l in range(nlev, -1, -1)]
    inner = kr[-1]
    y = "einsum:\n  declaration:\n    A: [K, M]\n    B: [K, N]\n    Z: [M, N]\n  expressions:\n  - Z[m, n] = A[k, m] * B[k, n]\n"
    y += "mapping:\n  rank-order:\n    A: [K, M]\n    B: [K, N]\n    Z: [M, N]\n"
    if part:
        y += "  partitioning:\n    Z:\n      K: [%s]\n" % part
    y += "  loop-order:\n    Z: [%s, M, N]\n" % ", ".join(kr)
    y += "  spacetime:\n    Z:\n      space: []\n      time: [%s, M, N]\n" % ", ".join(kr)
    y += "format:\n"
    for t, ranks in (("A", kr + ["M"]), ("B", kr + ["N"]), ("Z", ["M", "N"])):
        y += "  %s:\n    default:\n      rank-order: [%s]\n" % (t, ", ".join(ranks))
        for r in ranks:
            y += "      %s:\n        format: C\n" % r
            if cbits:
                y += "        cbits: 32\n"
            y += "        pbits: 64\n"
            if t == "A" and r == inner and layout != "contiguous":
                y += "        layout: %s\n" % layout
    y += ("architecture:\n  accel:\n  - name: System\n    attributes:\n      clock_frequency: 1000000000\n    local:\n"
          "    - name: MainMemory\n      class: DRAM\n      attributes:\n        bandwidth: 1024\n    subtree:\n"
          "    - name: Chip\n      local:\n      - name: L2\n        class: Cache\n        attributes:\n          width: 64\n"
          "          depth: 1024\n          bandwidth: 4096\n      subtree:\n      - name: PE[0..3]\n        local:\n        - name: Buf\n"
          "          class: Buffet\n          attributes:\n            width: 64\n            depth: 256\n"
          "        - name: Isect\n          class: Intersector\n          attributes:\n            type: %s\n"
          "        - name: Mul\n          class: compute\n          attributes:\n            type: mul\n" % isect)
    y += "bindings:\n  Z:\n  - config: accel\n    prefix: tmp/fam\n"
    y += "  - component: MainMemory\n    bindings:\n"
    for t, ranks in (("A", kr + ["M"]), ("B", kr + ["N"])):
        for r in ranks:
            for ty in ("coord", "payload"):
                y += "    - tensor: %s\n      rank: %s\n      type: %s\n      format: default\n" % (t, r, ty)
    for comp in ("L2", "Buf"):
        if comp not in where:
            continue
        y += "  - component: %s\n    bindings:\n" % comp
        for ty in (types_by_comp or {}).get(comp, types):
            y += "    - tensor: A\n      rank: %s\n      type: %s\n      format: default\n" % (inner, ty)
            if comp == "Buf":
                y += "      evict-on: %s\n" % ("root" if part is None else kr[0])
                if style != "lazy":
                    y += "      style: %s\n" % style
    y += "  - component: Isect\n    bindings:\n    - rank: %s\n" % (isect_rank or inner)
    if isect == "leader-follower":
        y += "      leader: A\n"
    y += "  - component: Mul\n    bindings:\n    - op: mul\n"
    return y


def specs(tier="quick"):
    out = []
    parts = [None, "uniform_shape(4)", "uniform_occupancy(A.16)"]
    isects = ["two-finger", "skip-ahead", "leader-follower"]
    layouts = ["contiguous", "interleaved"]
    typesets = [("coord",), ("payload",), ("coord", "payload"), ("elem",)]
    wheres = [("Buf",), ("L2",), ("L2", "Buf")]
    styles = ["lazy", "eager"]
    n = 0
    for part, isect, layout, types, where, style in itertools.product(parts, isects, layouts, typesets, wheres, styles):
        if style == "eager" and "Buf" not in where:
            continue
        n += 1
        # quick: one intersector type per (other parameters), rotating, so that every value of every axis is met
        if tier != "thorough" and isects.index(isect) != n % 3:
            continue
        name = "matmul K:%s isect=%s layout=%s on-chip %s in %s style=%s" % (part, isect, layout, "+".join(types), "+".join(where), style)
        out.append((name, spec(part, isect, layout, types, where, style)))
    # a rank split statically and then dynamically (three levels), and twice dynamically
    for part in ("uniform_shape(20), uniform_occupancy(A.5)", "uniform_occupancy(A.20), uniform_occupancy(A.5)",
                 "uniform_shape(20), uniform_shape(5)"):
        for types, where, style in ((("coord", "payload"), ("Buf",), "lazy"), (("coord", "payload"), ("L2", "Buf"), "eager"),
                                    (("elem",), ("L2",), "lazy")):
            out.append(("matmul K:[%s] on-chip %s in %s style=%s" % (part, "+".join(types), "+".join(where), style),
                        spec(part, "two-finger", "contiguous", types, where, style)))
    # different binding types in the cache and in the buffet below it (same tensor, rank, format)
    for part in parts:
        for layout in layouts:
            for tl2, tbuf in ((("elem",), ("payload",)), (("elem",), ("coord",)), (("coord",), ("payload",)),
                              (("payload",), ("coord", "payload")), (("coord", "payload"), ("elem",))):
                for style in styles:
                    out.append(("matmul K:%s layout=%s L2 holds %s, Buf holds %s, style=%s" % (part, layout, "+".join(tl2), "+".join(tbuf), style),
                                spec(part, "two-finger", layout, ("coord",), ("L2", "Buf"), style,
                                     types_by_comp={"L2": tl2, "Buf": tbuf})))
    # the intersector binding names the rank as declared (K) although the mapping splits it, or its outer level
    for part in parts[1:]:
        for isect in isects:
            for r in ("K", "K1"):
                out.append(("matmul K:%s isect=%s bound to rank %s" % (part, isect, r),
                            spec(part, isect, "contiguous", ("coord", "payload"), ("Buf",), "lazy", isect_rank=r)))
    return out
