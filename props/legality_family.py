"""Bounded companion of C18: violations of each stated legality rule injected into otherwise legal specifications;
the real entry points (parsers + HiFiber) must raise ValueError. Also the refuter for the guard contracts."""

BASE_DECL = {"A": "[K, M]", "B": "[K, N]", "Z": "[M, N]"}
BASE_EXPR = "Z[m, n] = A[k, m] * B[k, n]"


def y(decl=None, exprs=None, mapping="", extra=""):
    decl = decl or BASE_DECL
    exprs = exprs or [BASE_EXPR]
    s = "einsum:\n  declaration:\n" + "".join("    %s: %s\n" % kv for kv in decl.items())
    s += "  expressions:\n" + "".join("    - %s\n" % e for e in exprs)
    s += "mapping:\n" + mapping + extra
    return s


def cases():
    c = []
    # duplicate rank in a declaration / rank-order (every position)
    for t, r in (("A", "[K, K]"), ("B", "[K, N, K]"), ("Z", "[M, N, N]"), ("A", "[M, K, M]")):
        d = dict(BASE_DECL)
        d[t] = r
        c.append(("duplicate rank in declaration of %s" % t, y(decl=d)))
    for t, r in (("A", "[M, M]"), ("B", "[N, K, N]"), ("Z", "[N, N]")):
        c.append(("duplicate rank in rank-order of %s" % t, y(mapping="  rank-order:\n    %s: %s\n" % (t, r))))
    # undeclared / repeated tensor
    c.append(("undeclared operand", y(exprs=["Z[m, n] = A[k, m] * C[k, n]"])))
    c.append(("undeclared second operand of three", y(decl=dict(BASE_DECL, D="[M]"), exprs=["Z[m, n] = A[k, m] * D[m] * Q[k, n]"])))
    c.append(("undeclared output", y(exprs=["Y[m, n] = A[k, m] * B[k, n]"])))
    c.append(("repeated tensor", y(exprs=["Z[m, n] = A[k, m] * A[k, n]"])))
    c.append(("repeated tensor (output as operand)", y(exprs=["Z[m, n] = Z[m, n] * A[k, m]"])))
    c.append(("repeated tensor third factor", y(exprs=["Z[m, n] = A[k, m] * B[k, n] * B[k, n]"])))
    # terms over different rank sets
    d2 = {"A": "[M]", "B": "[N]", "C": "[M]", "Z": "[M]"}
    c.append(("terms over different rank sets", y(decl=d2, exprs=["Z[m] = A[m] + B[n]"])))
    c.append(("third term over different ranks", y(decl=d2, exprs=["Z[m] = A[m] + C[m] + B[n]"])))
    d3 = {"A": "[M]", "B": "[M, N]", "Z": "[M, N]"}
    c.append(("later term over a superset of the ranks", y(decl=d3, exprs=["Z[m, n] = A[m] + B[m, n]"])))
    c.append(("first term over a superset of the ranks", y(decl=d3, exprs=["Z[m, n] = B[m, n] + A[m]"])))
    # flatten rules
    P = "  partitioning:\n    Z:\n"
    c.append(("flatten with other directive", y(mapping=P + "      (K, M): [flatten(), uniform_occupancy(A.4)]\n")))
    c.append(("flatten of one rank", y(mapping=P + "      K: [flatten()]\n")))
    c.append(("non-flatten directive on a tuple", y(mapping=P + "      (K, M): [uniform_shape(4)]\n")))
    c.append(("occupancy directive on a tuple", y(mapping=P + "      (M, K): [uniform_occupancy(A.4)]\n")))
    c.append(("flatten also partitioned (first rank)", y(mapping=P + "      K: [uniform_shape(4)]\n      (K, M): [flatten()]\n")))
    c.append(("flatten also partitioned (second rank)", y(mapping=P + "      M: [uniform_shape(4)]\n      (K, M): [flatten()]\n")))
    c.append(("flatten already flattened rank", y(mapping=P + "      (K, M): [flatten()]\n      (KM, N): [flatten()]\n      (KM, KMN): [flatten()]\n")))
    conv = {"I": "[W, C]", "F": "[S, C]", "O": "[Q, C]"}
    ce = ["O[q, c] = I[q + s, c] * F[s, c]"]
    PO = "  partitioning:\n    O:\n"
    c.append(("flatten index-math rank (first)", y(decl=conv, exprs=ce, mapping=PO + "      (Q, C): [flatten()]\n")))
    c.append(("flatten index-math rank (second)", y(decl=conv, exprs=ce, mapping=PO + "      (C, Q): [flatten()]\n")))
    c.append(("flatten index-math rank (S)", y(decl=conv, exprs=ce, mapping=PO + "      (C, S): [flatten()]\n")))
    # n-way after occupancy; shape after flatten
    c.append(("nway after occupancy", y(mapping=P + "      K: [uniform_occupancy(A.4), nway_shape(2)]\n")))
    c.append(("nway after occupancy (3 levels)", y(mapping=P + "      K: [uniform_shape(8), uniform_occupancy(A.4), nway_shape(2)]\n")))
    c.append(("nway after two occupancy levels", y(mapping=P + "      K: [uniform_occupancy(A.8), uniform_occupancy(A.4), nway_shape(2)]\n")))
    c.append(("nway after occupancy with a shape split between", y(decl={"A": "[K, M]", "Z": "[M]"}, exprs=["Z[m] = A[k, m]"],
              mapping=P + "      K: [uniform_occupancy(A.6), uniform_shape(4), nway_shape(2)]\n")))
    c.append(("shape split below an occupancy split after flattening",
              y(mapping=P + "      (K, M): [flatten()]\n      KM: [uniform_occupancy(A.6), uniform_shape(3)]\n")))
    c.append(("shape split after flattening", y(mapping=P + "      (K, M): [flatten()]\n      KM: [uniform_shape(4)]\n")))
    c.append(("nway shape split after flattening", y(mapping=P + "      (K, M): [flatten()]\n      KM: [nway_shape(4)]\n")))
    # loop order projecting into the output
    c.append(("project into output", y(decl=conv, exprs=ce, mapping="  loop-order:\n    O: [W, S, C]\n")))
    c.append(("project into output (W innermost)", y(decl=conv, exprs=ce, mapping="  loop-order:\n    O: [C, S, W]\n")))
    # the same rule with other index expressions: identity (an input rank named differently from the output's), a
    # stride, a dilation, two index-math ranks - the loop order names the INPUT's rank, so the output would be projected into
    ident = {"I": "[W]", "F": "[W]", "O": "[Q]"}
    c.append(("project into output through an identity index expression", y(decl=ident, exprs=["O[q] = I[q] * F[q]"],
              mapping="  loop-order:\n    O: [W]\n")))
    c.append(("project into output through a stride", y(decl={"I": "[W]", "O": "[Q]"}, exprs=["O[q] = I[2 * q]"],
              mapping="  loop-order:\n    O: [W]\n")))
    c.append(("project into output, dilated filter", y(decl={"I": "[W]", "F": "[S]", "O": "[Q]"}, exprs=["O[q] = I[q + 2 * s] * F[s]"],
              mapping="  loop-order:\n    O: [S, W]\n")))
    conv2 = {"I": "[H, W]", "F": "[R, S]", "O": "[P, Q]"}
    c.append(("project into output, second of two index-math ranks", y(decl=conv2, exprs=["O[p, q] = I[p + r, q + s] * F[r, s]"],
              mapping="  loop-order:\n    O: [P, R, W, S]\n")))
    return c


def bindings_cases():
    base = "bindings:\n"
    return [
        ("einsum without config", base + "  Z:\n  - component: FPMul\n    bindings:\n    - op: mul\n"),
        ("second einsum without config", base + "  T:\n  - config: c\n    prefix: p\n  Z:\n  - component: FPMul\n    bindings: []\n"),
        ("first einsum without config", base + "  T:\n  - component: X\n    bindings: []\n  Z:\n  - config: c\n    prefix: p\n"),
    ]


def sweep():
    from teaal.parse import Einsum, Mapping, Bindings
    from teaal.trans.hifiber import HiFiber
    ev, fails, samples, distinct = 0, [], [], set()
    for name, spec in cases():
        ev += 1
        distinct.add(spec)
        try:
            text = str(HiFiber(Einsum.from_str(spec), Mapping.from_str(spec)))
            outcome = "compiled (%d chars)" % len(text)
        except ValueError:
            outcome = None
        except Exception as e:      # noqa
            outcome = "raised %s: %s" % (type(e).__name__, e)
        if len(samples) < 4:
            samples.append({"rule_instance": name})
        if outcome is not None:
            fails.append({"name": "bounded/legality/" + name, "detail": "%s: %s" % (name, outcome),
                          "witness": {"rule_instance": name, "yaml": spec, "outcome": outcome}})
    for name, spec in bindings_cases():
        ev += 1
        distinct.add(spec)
        try:
            Bindings.from_str(spec)
            outcome = "accepted"
        except ValueError:
            outcome = None
        except Exception as e:      # noqa
            outcome = "raised %s: %s" % (type(e).__name__, e)
        if outcome is not None:
            fails.append({"name": "bounded/legality/" + name, "detail": "%s: %s" % (name, outcome),
                          "witness": {"rule_instance": name, "yaml": spec, "outcome": outcome}})
    return ev, len(distinct), fails, samples
