"""C17: specification text is parsed into exactly the structure written (bounded for the grammars)."""
import itertools
import random
from pyvc.driver import Extra
from props import grammar_oracle as go

ID = "C17"
LEVEL = "exploration"
SIDECARS = ["contracts.arch", "contracts.mapping_c17", "contracts.eqparse"]
TARGETS = ["Architecture.__init__", "Mapping.__init__", "EquationParser.parse"]
TECHNIQUE = ("bounded: strings derived from the five grammars within a size bound (and near-miss strings) through the "
             "real public parsers, read back by an independent extractor; contracts (SMT) only for the post-grammar code: "
             "per-visit lemma of Architecture.__init__ (N+1 instance count), per-entry lemma of Mapping.__init__ "
             "(directives reach the parser as written), per-visit lemmas of EquationParser.parse (sign folding, empty ranks)")
EXPLANATION = (
    "Acceptance is decided by lark's Earley parser over grammar string literals: there is no teaal function whose "
    "body decides it, so no contract within reach expresses the grammar half; it is served by a BOUNDED check. "
    "Every structure within the bound (Einsums: <= 3 terms x <= 3 factors x index expressions of <= 3 terms with "
    "coefficients in -12..12, take() with every selector, scalar factors, rank-0 tensors; the five directive kinds with "
    "numeric and symbolic sizes; rank tuples of <= 4; the three stamp forms; both level-name forms) is rendered with "
    "randomised insignificant whitespace, parsed by the real parser (including EquationParser.parse's post-parse "
    "normalisation and Architecture's N+1 instance count) and read back by an independent extractor; near-miss "
    "strings must be rejected. PROVED (SMT, contracts/arch.py) is only the per-visit lemma of Architecture.__init__: "
    "each level dictionary it visits gets name and num (1 for NAME, N + 1 for NAME[0..N]) from the name it carried "
    "when visited, whatever was visited before; and of Mapping.__init__: the directive list stored for an entry is "
    "PartitioningParser.parse_partitioning of each directive string as written, in order (nothing cached or re-keyed "
    "between the YAML text and the parser); and of EquationParser.parse's normalisation: a `ranks` node visited never "
    "keeps the lone None child of empty brackets, and an `itimes` node's coefficient becomes one token whose integer is "
    "+n for pos(n) and -n for neg(n); the traversal itself and dictionaries shared through YAML aliases are "
    "served by a bounded architecture-tree family.")
TRUSTED = ["the independent extractor below"]
ASSUMPTIONS = ["bounded: enumerated structures; whitespace randomised by VERIF_SEED"]

NAMES = ["A", "Bc", "Z9", "take1", "t", "x_y", "take", "Take"]
VARS = ["i", "j", "k", "m1"]


def ws(rnd):
    return rnd.choice(["", " ", "  ", "\t"])


def render_iexpr(terms, rnd):
    parts = []
    for coef, var in terms:
        if coef is None:
            parts.append(var)
        else:
            c = ("-" + ws(rnd) + str(-coef)) if coef < 0 else str(coef)
            parts.append(c + ws(rnd) + "*" + ws(rnd) + var)
    return (ws(rnd) + "+" + ws(rnd)).join(parts)


def render_access(name, iexprs, rnd):
    return name + ws(rnd) + "[" + ws(rnd) + (ws(rnd) + "," + ws(rnd)).join(render_iexpr(t, rnd) for t in iexprs) + ws(rnd) + "]"


def render_factor(f, rnd):
    return f[1] if f[0] == "var" else render_access(f[1], f[2], rnd)


def render_term(t, rnd):
    if t[0] == "times":
        return (ws(rnd) + "*" + ws(rnd)).join(render_factor(f, rnd) for f in t[1])
    return "take(" + ws(rnd) + (ws(rnd) + "," + ws(rnd)).join(render_factor(f, rnd) for f in t[1]) + ws(rnd) + "," + ws(rnd) + str(t[2]) + ws(rnd) + ")"


def render_einsum(e, rnd):
    out, terms = e
    return render_access(out[0], out[1], rnd) + ws(rnd) + "=" + ws(rnd) + (ws(rnd) + "+" + ws(rnd)).join(render_term(t, rnd) for t in terms)


def extract_einsum(tree):
    """independent read-back of the parse tree into the generating structure"""
    def iexpr(n):
        out = []
        for t in n.children:
            if t.data == "ijust":
                out.append((None, str(t.children[0])))
            else:
                out.append((int(str(t.children[0])), str(t.children[1])))
        return out

    def access(n):
        return (str(n.children[0]), [iexpr(c) for c in n.children[1].children])

    def factor(n):
        if n.data == "var":
            return ("var", str(n.children[0]))
        nm, ie = access(n)
        return ("tensor", nm, ie)
    assert tree.data == "einsum"
    out = access(tree.children[0])
    terms = []
    for t in tree.children[1].children:
        if t.data == "times":
            terms.append(("times", [factor(f) for f in t.children]))
        else:
            terms.append(("take", [factor(f) for f in t.children[:-1]], int(str(t.children[-1]))))
    return (out, terms)


def einsum_structures(rnd, n):
    coefs = [None, 1, 2, 12, -1, -3, -12]
    ie_pool = [[(None, "i")], [(2, "k")], [(None, "i"), (None, "j")], [(-3, "k"), (None, "m1")],
               [(12, "i"), (-1, "j"), (None, "k")], [(-12, "m1")]]
    acc_pool = [[], [ie_pool[0]], [ie_pool[1], ie_pool[2]], [ie_pool[3]], [ie_pool[4], ie_pool[0], ie_pool[5]]]
    out = []
    for _ in range(n):
        o = (rnd.choice(NAMES), rnd.choice([[], [[(None, "i")]], [[(None, "i")], [(None, "j")]]]))
        terms = []
        for _t in range(rnd.randint(1, 3)):
            nf = rnd.randint(1, 3)
            fs = []
            for _f in range(nf):
                if rnd.random() < 0.2:
                    fs.append(("var", rnd.choice(["a", "b2", "take_", "take"])))
                else:
                    fs.append(("tensor", rnd.choice(NAMES), rnd.choice(acc_pool)))
            if rnd.random() < 0.3 and nf >= 1:
                terms.append(("take", fs, rnd.randrange(nf)))
            else:
                terms.append(("times", fs))
        out.append((o, terms))
    # systematic corner cases
    for c in coefs:
        ie = [(c, "k")] if c is not None else [(None, "k")]
        out.append((("Z", [[(None, "m")]]), [("times", [("tensor", "A", [ie, [(None, "m")]])])]))
    for sel in range(3):
        out.append((("Z", [[(None, "m")]]), [("take", [("tensor", "A", [[(None, "m")]]), ("tensor", "B", [[(None, "m")]]),
                                                     ("var", "c")], sel)]))
    return out


NEAR_MISS_EINSUM = ["Z[m] = ", "Z[m] A[m]", "Z[m] = A[m", "Z[m] = A[m] *", "Z[m] = take(A[m], B[m])", "Z[m] = A[2k]",
                    "Z[m] = A[m] + ", "[m] = A[m]", "Z[m] = A[m] B[m]", "Z[m] = A[m]]", "Z[m] = 3 * A[m]",
                    "Z[m] = A[k * 2]", "Z[m] = take(A[m], 0", "Z[m] == A[m]", "Z[m] = A[m] - B[m]"]


def check_einsums(rnd, n):
    from teaal.parse.equation import EquationParser
    ev, fails, distinct, samples = 0, [], set(), []
    for e in einsum_structures(rnd, n):
        s = render_einsum(e, rnd)
        ev += 1
        distinct.add(s)
        try:
            got = extract_einsum(EquationParser.parse(s))
        except Exception as ex:      # noqa
            got = "raised %s" % type(ex).__name__
        if len(samples) < 2:
            samples.append({"text": s})
        if got != e:
            fails.append({"name": "bounded/einsum-roundtrip", "detail": "%r parsed to %r, written %r" % (s, got, e),
                          "witness": {"text": s, "parsed": repr(got), "written": repr(e)}})
    for s in NEAR_MISS_EINSUM:
        ev += 1
        try:
            EquationParser.parse(s)
            fails.append({"name": "bounded/einsum-near-miss", "detail": "%r accepted" % s, "witness": {"text": s}})
        except Exception:      # noqa
            pass
    # single-token mutations of the valid strings (each valid spelling was parsed just before its mutants): the real
    # parser and the independent reader must agree on acceptance and on what was read
    pool = ["take(", "take", "[", "]", ",", "*", "+", "-", "=", ")", "(", "2", "k", "A", " "]
    cap = 40 if n > 1000 else 12
    for s in sorted(distinct):
        if len(fails) > 8:
            break
        for m in go.mutations(s, pool, rnd, cap):
            want = go.read_einsum(m)
            if want[0] == "unsure":
                continue
            ev += 1
            got = go.real_einsum(m)
            if want[0] == "reject" and got[0] != "reject":
                fails.append({"name": "bounded/einsum-near-miss", "detail": "%r (outside the grammar) accepted as %r" % (m, got[1]),
                              "witness": {"text": m, "after_parsing": s}})
            elif want[0] == "ok" and (got[0] != "ok" or go.norm_coef(got[1]) != go.norm_coef(want[1])):
                fails.append({"name": "bounded/einsum-roundtrip", "detail": "%r parsed to %r, written %r" % (m, got, want[1]),
                              "witness": {"text": m, "parsed": repr(got), "written": repr(want[1])}})
    return ev, distinct, fails, samples


def check_mutants(rnd, valid, reader, real, pool, name, cap):
    """token mutations of valid strings of one of the small grammars"""
    ev, fails = 0, []
    for s in valid:
        first = real(s)          # the valid spelling is parsed first: acceptance must not depend on history
        for m in go.mutations(s, pool, rnd, cap):
            want = reader(m)
            if want[0] == "unsure":
                continue
            ev += 1
            got = real(m)
            if name == "stamp" and '"' not in m and "\\" not in m:
                for where in ("space", "time"):
                    via = go.real_stamp_via_mapping(m, where)
                    ev += 1
                    if via != got:
                        fails.append({"name": "bounded/stamp-near-miss",
                                      "detail": "%r is read as %r by the stamp parser but as %r when written in the %s list of a mapping"
                                                % (m, got, via, where), "witness": {"text": m, "list": where}})
            if name == "directive" and '"' not in m and "\\" not in m:
                via = go.real_directive_via_mapping(s, m)       # the public entry point, valid spelling in the same mapping
                ev += 1
                if via != got:
                    fails.append({"name": "bounded/directive-near-miss",
                                  "detail": "%r is read as %r by the directive parser but as %r by Mapping (with %r written for "
                                            "another rank of the same mapping)" % (m, got, via, s),
                                  "witness": {"text": m, "same_mapping_also_has": s}})
            if want[0] == "reject" and got[0] != "reject":
                fails.append({"name": "bounded/%s-near-miss" % name, "detail": "%r (outside the grammar) accepted as %r after parsing %r"
                              % (m, got[1], s), "witness": {"text": m, "after_parsing": s}})
            elif want[0] == "ok" and got != want:
                fails.append({"name": "bounded/%s-roundtrip" % name, "detail": "%r parsed to %r, written %r" % (m, got, want[1]),
                              "witness": {"text": m}})
            if len(fails) > 4:
                return ev, fails
        if real(s) != first:
            fails.append({"name": "bounded/%s-roundtrip" % name, "detail": "%r parsed differently the second time" % s,
                          "witness": {"text": s}})
    return ev, fails


def check_directives(rnd):
    from teaal.parse.partitioning import PartitioningParser
    from teaal.parse.spacetime import SpaceTimeParser
    from teaal.parse.level import LevelParser
    from teaal.parse import Architecture
    ev, fails, distinct = 0, [], set()

    def sizes():
        return [("int_sz", "4"), ("int_sz", "128"), ("str_sz", "KS"), ("str_sz", "m0"), ("str_sz", "nway_shape1")]
    cases = []
    for kind, sz in sizes():
        for d in ("nway_shape", "uniform_shape"):
            cases.append(("%s(%s%s%s)" % (d, ws(rnd), sz, ws(rnd)), (d, None, kind, sz)))
        for leader in ("A", "T1", "follow"):
            cases.append(("uniform_occupancy(%s%s%s.%s%s)" % (ws(rnd), leader, ws(rnd), ws(rnd), sz), ("uniform_occupancy", leader, kind, sz)))
    cases.append(("flatten(%s)" % ws(rnd), ("flatten", None, None, None)))
    for leader in ("K", "M0", "flatten"):
        cases.append(("follow(%s%s%s)" % (ws(rnd), leader, ws(rnd)), ("follow", leader, None, None)))
    for text, want in cases:
        ev += 1
        distinct.add(text)
        try:
            t = PartitioningParser.parse_partitioning(text)
            leader = [str(c.children[0]) for c in t.find_data("leader")]
            szs = [(c.data, str(c.children[0])) for c in list(t.find_data("int_sz")) + list(t.find_data("str_sz"))]
            got = (t.data, leader[0] if leader else None, szs[0][0] if szs else None, szs[0][1] if szs else None)
        except Exception as ex:      # noqa
            got = "raised %s" % type(ex).__name__
        if got != want:
            fails.append({"name": "bounded/directive-roundtrip", "detail": "%r parsed to %r, written %r" % (text, got, want),
                          "witness": {"text": text}})
    for bad in ("uniform_shape()", "uniform_shape(4", "nway_shape(4.5.6)", "uniform_occupancy(A)", "uniform_occupancy(.4)",
                "flatten(K)", "follow()", "uniform_shape(4) x", "shape(4)", "uniform_occupancy(A.4.5.6)", "uniform_shape(-4)"):
        ev += 1
        try:
            PartitioningParser.parse_partitioning(bad)
            fails.append({"name": "bounded/directive-near-miss", "detail": "%r accepted" % bad, "witness": {"text": bad}})
        except Exception:      # noqa
            pass
    # rank tuples
    for n in range(1, 5):
        for names in itertools.permutations(["K", "M0", "KM", "n1"], n):
            text = names[0] if n == 1 else "(" + ws(rnd) + (ws(rnd) + "," + ws(rnd)).join(names) + ws(rnd) + ")"
            ev += 1
            distinct.add(text)
            try:
                t = PartitioningParser.parse_ranks(text)
                got = [str(c) for c in t.children]
            except Exception as ex:      # noqa
                got = "raised %s" % type(ex).__name__
            if got != list(names):
                fails.append({"name": "bounded/ranks-roundtrip", "detail": "%r parsed to %r" % (text, got), "witness": {"text": text}})
    for bad in ("(K)", "(K,)", "K, M", "(K M)", "()", "(K, M", "K)", "(K,, M)", "4K"):
        ev += 1
        try:
            PartitioningParser.parse_ranks(bad)
            fails.append({"name": "bounded/ranks-near-miss", "detail": "%r accepted" % bad, "witness": {"text": bad}})
        except Exception:      # noqa
            pass
    # spacetime stamps
    for nm in ("K", "M0", "pos", "coord1"):
        for suffix, want in (("", "pos"), (".pos", "pos"), (".coord", "coord")):
            text = nm + ws(rnd) + suffix
            ev += 1
            distinct.add(text)
            try:
                t = SpaceTimeParser.parse(text)
                got = (t.data, str(t.children[0]))
            except Exception as ex:      # noqa
                got = "raised %s" % type(ex).__name__
            if got != (want, nm):
                fails.append({"name": "bounded/stamp-roundtrip", "detail": "%r parsed to %r" % (text, got), "witness": {"text": text}})
    for bad in ("K.", "K.position", ".pos", "K.pos.coord", "K pos", "K.coords"):
        ev += 1
        try:
            SpaceTimeParser.parse(bad)
            fails.append({"name": "bounded/stamp-near-miss", "detail": "%r accepted" % bad, "witness": {"text": bad}})
        except Exception:      # noqa
            pass
    # level names and instance counts through the real Architecture parser
    for nm in ("PE", "Row2", "x"):
        for n in (None, 0, 1, 7, 15, 255):
            text = nm if n is None else "%s%s[0..%d%s]" % (nm, ws(rnd), n, ws(rnd))
            ev += 1
            distinct.add(text)
            try:
                t = LevelParser.parse(text)
                got = (t.data, str(t.children[0]), None if n is None else int(str(t.children[1])))
                spec = Architecture.from_str("architecture:\n  c:\n  - name: \"%s\"\n" % text).get_spec()
                num = spec["architecture"]["c"][0]["num"]
            except Exception as ex:      # noqa
                got, num = "raised %s" % type(ex).__name__, None
            if got != ("single" if n is None else "multiple", nm, n) or num != (1 if n is None else n + 1):
                fails.append({"name": "bounded/level-roundtrip", "detail": "%r parsed to %r, num=%r" % (text, got, num),
                              "witness": {"text": text}})
    e_, f_ = check_arch_trees(rnd)
    ev, fails = ev + e_, fails + f_
    for bad in ("PE[0..]", "PE[1..4]", "PE[0..4", "PE[0.4]", "[0..4]", "PE[0..x]", "PE[0..4]]", "PE[0..-1]"):
        ev += 1
        try:
            LevelParser.parse(bad)
            fails.append({"name": "bounded/level-near-miss", "detail": "%r accepted" % bad, "witness": {"text": bad}})
        except Exception:      # noqa
            pass
    cap = 60
    dpool = ["nway_shape(", "uniform_shape(", "uniform_occupancy(", "flatten(", "follow(", "(", ")", ".", "4", "K", "x1", " "]
    valid_d = sorted(t for t in distinct if "(" in t and not t.lstrip().startswith("(") and "[" not in t)
    e, f = check_mutants(rnd, valid_d, go.read_directive, go.real_directive, dpool, "directive", cap)
    ev, fails = ev + e, fails + f
    valid_r = sorted(t for t in distinct if (t.lstrip().startswith("(") or go.read_ranks(t)[0] == "ok") and "[" not in t and "." not in t)
    e, f = check_mutants(rnd, valid_r, go.read_ranks, go.real_ranks, ["(", ")", ",", "K", "M0", " "], "ranks", cap)
    ev, fails = ev + e, fails + f
    valid_s = sorted(t for t in distinct if go.read_stamp(t)[0] == "ok")
    e, f = check_mutants(rnd, valid_s, go.read_stamp, go.real_stamp, [".pos", ".coord", ".", "K", "pos", " "], "stamp", cap)
    ev, fails = ev + e, fails + f
    valid_l = sorted(t for t in distinct if go.read_level(t)[0] == "ok")
    e, f = check_mutants(rnd, valid_l, go.read_level, go.real_level, ["[0..", "]", "[", "..", "0", "7", "PE", " "], "level", cap)
    ev, fails = ev + e, fails + f
    return ev, distinct, fails


def check_arch_trees(rnd, n=60):
    """architecture trees (<= 3 levels deep, <= 3 siblings, 1-2 configurations, single and multiple level names in
    every position, optionally one subtree shared by a YAML anchor/alias between configurations or siblings) through
    the real Architecture parser; every level of the parsed specification must carry the name and N + 1 written"""
    from teaal.parse import Architecture
    ev, fails = 0, []

    def gen_level(depth, path):
        nm = rnd.choice(["PE", "Row", "L2", "System", "x"]) + "".join(str(p) for p in path)
        n = rnd.choice([None, None, 0, 1, 3, 7, 15])
        kids = [] if depth >= 2 else [gen_level(depth + 1, path + [i]) for i in range(rnd.choice([0, 1, 1, 2, 3]))]
        return {"nm": nm, "n": n, "kids": kids}

    def render(lv, ind, anchor=None):
        pad = " " * ind
        text = lv["nm"] if lv["n"] is None else "%s[0..%d]" % (lv["nm"], lv["n"])
        head = "%s- %sname: %s\n" % (pad, ("&%s " % anchor) if False else "", text)
        if anchor:
            head = "%s- &%s\n%s  name: %s\n" % (pad, anchor, pad, text)
        out = head
        if lv["kids"]:
            out += "%s  subtree:\n" % pad
            for k in lv["kids"]:
                out += render(k, ind + 2)
        return out

    def expect(lv):
        return (lv["nm"], 1 if lv["n"] is None else lv["n"] + 1, [expect(k) for k in lv["kids"]])

    def got(t):
        return (t.get("name"), t.get("num"), [got(k) for k in t.get("subtree", [])])
    for i in range(n):
        root = gen_level(0, [])
        mode = i % 3          # 0: one configuration; 1: second configuration re-uses a subtree by alias; 2: alias as a sibling
        y = "architecture:\n  c0:\n"
        want = {"c0": [expect(root)]}
        if mode == 0 or not root["kids"]:
            y += render(root, 2)
        else:
            shared = root["kids"][0]
            pad = "    "
            text = root["nm"] if root["n"] is None else "%s[0..%d]" % (root["nm"], root["n"])
            y += "  - name: %s\n    subtree:\n" % text
            y += render(shared, 4, anchor="sh")
            for k in root["kids"][1:]:
                y += render(k, 4)
            if mode == 2:
                y += "    - *sh\n"
                want["c0"][0][2].append(expect(shared))
            else:
                y += "  c1:\n  - name: Top\n    subtree:\n    - *sh\n"
                want["c1"] = [("Top", 1, [expect(shared)])]
        ev += 1
        try:
            spec = Architecture.from_str(y).get_spec()["architecture"]
            have = {c: [got(t) for t in spec[c]] for c in spec}
        except Exception as ex:      # noqa
            have = "raised %s: %s" % (type(ex).__name__, ex)
        if have != want:
            fails.append({"name": "bounded/architecture-tree", "detail": "levels parsed as %s, written %s%s" % (
                str(have)[:300], str(want)[:300], "" if mode == 0 else " cause=level-shared-through-a-yaml-alias"),
                "witness": {"yaml": y, "parsed": str(have)[:800], "written": str(want)[:800]}})
    return ev, fails[:4]


def bounded(uni, tier, seed):
    rnd = random.Random(seed)
    n = 3000 if tier == "thorough" else 400
    e1, d1, f1, s1 = check_einsums(rnd, n)
    e2, d2, f2 = check_directives(rnd)
    return {"evaluations": e1 + e2, "distinct_nontrivial": len(d1) + len(d2), "failures": (f1 + f2)[:8], "samples": s1,
            "rule": "strings rendered from enumerated / random structures of the five grammars with randomised "
                    "insignificant whitespace, parsed by the real parsers and read back by an independent extractor; "
                    "near-miss strings must raise (bounded; seed = VERIF_SEED)"}


def extra(uni, tier, seed):
    return []
