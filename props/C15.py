"""C15: compilation does not mutate its inputs and is repeatable."""
import ast
import copy
import glob
import time
from pyvc import ownership, structural, extract
from pyvc.driver import Extra

ID = "C15"
LEVEL = "proof"
SIDECARS = []
TARGETS = []
TECHNIQUE = ("frame conditions: inferred per-function ownership contracts over the AST of every function under "
             "teaal/, one obligation per heap-write site (the written container is not input-owned)")
EXPLANATION = (
    "Frame property decided per write site: ownership contracts are inferred for every function of teaal/ (ownership "
    "of each parameter as passed by its call sites, of the result, of each field), starting from the base contracts of "
    "the parser classes (reading a field of Einsum/Mapping/Architecture/Bindings/Format hands out input-owned "
    "references; copy()/list()/comprehensions/slicing give a fresh container with owned elements; deepcopy gives a "
    "fresh structure). Every subscript/attribute store, del, and in-place container method in compiler code carries "
    "the obligation that its receiver is not input-owned. Process-level clause: no global/nonlocal, no stores to "
    "class or module attributes, module-level objects are constants and lark parsers. The before/after snapshots "
    "and repeated compilations on the corpus are a bounded companion.")
TRUSTED = ["type annotations (a parameter annotated as scalar or as a teaal class is not an input-owned container)",
           "lark parsers are stateless across parse() calls", "CPython determinism for 'same program twice'"]
ASSUMPTIONS = ["the ownership inference is flow-insensitive and depth-5; deeper nesting is collapsed (sound for "
               "the verdict 'not owned')"]


def extra(uni, tier, seed):
    out = []
    t0 = time.time()
    a = ownership.write_sites()
    per = {}
    for s in a.sites:
        fn = s["func"].split(":", 1)[1]
        k = per.get((fn, s["text"]), 0)
        per[(fn, s["text"])] = k + 1
        name = "frame/%s/write[%s]%s/not_input_owned" % (fn, s["text"], "#%d" % k if k else "")
        ok = s["own"][0] != "O"
        out.append(Extra(name, ok, "receiver ownership %s at %s:%d" % ("".join(s["own"]), s["func"].split(":")[0], s["line"]),
                         backend="ownership-checker", kind="frame"))
    out.append(Extra("frame/write sites found", len(a.sites) > 100, "%d sites, %d inference rounds" % (len(a.sites), a.iterations),
                     backend="ownership-checker"))
    # process-level state
    bad = structural.attr_stores_not_on_self({("teaal/parse/equation.py", "ranks.children")})
    out.append(Extra("process/no store outside self (no class or module attribute is written)", not bad, "; ".join(bad[:4])))
    mut = []
    for rel in extract.all_repo_modules():
        tree = extract.module(rel).tree
        scopes = [(rel, tree.body)] + [(rel + ":" + c.name, c.body) for c in tree.body if isinstance(c, ast.ClassDef)]
        for where, body in scopes:
            for n in body:
                if isinstance(n, (ast.Assign, ast.AnnAssign)):
                    v = n.value
                    if v is None or isinstance(v, ast.Constant):
                        continue
                    if isinstance(v, ast.Call) and isinstance(v.func, ast.Name) and v.func.id in ("Lark", "TypeVar"):
                        continue
                    if isinstance(v, (ast.Name, ast.Attribute, ast.Subscript)):
                        continue            # type aliases
                    mut.append("%s:%d %s" % (where, n.lineno, ast.unparse(n)[:60]))
    out.append(Extra("process/module- and class-level objects are constants, aliases or lark parsers", not mut, "; ".join(mut[:4])))
    for e in out:
        e.seconds = (time.time() - t0) / len(out)
    return out


def _corpus():
    from pyvc.extract import REPO
    return sorted(glob.glob(REPO + "/tests/integration/*.yaml"))


def _snap(objs):
    return [copy.deepcopy(vars(o)) if o is not None else None for o in objs]


def _compile_twice(path):
    from teaal.parse import Einsum, Mapping, Architecture, Bindings, Format
    from teaal.trans.hifiber import HiFiber
    try:
        objs = [Einsum.from_file(path), Mapping.from_file(path)]
    except Exception as e:      # noqa
        return "skip", "not a complete specification"
    try:
        arch, bind, fmt = Architecture.from_file(path), Bindings.from_file(path), Format.from_file(path)
        if arch.get_spec() and bind.get_bindings():
            objs += [arch, bind, fmt]
    except Exception:      # noqa
        pass
    before = _snap(objs)
    try:
        t1 = str(HiFiber(*objs))
    except Exception as e:      # noqa
        return "skip", "first compilation raises %s" % type(e).__name__
    after = _snap(objs)
    names = ["Einsum", "Mapping", "Architecture", "Bindings", "Format"]
    for n, b, a in zip(names, before, after):
        if b != a:
            return "FAIL", "%s object differs after HiFiber(...)" % n
    try:
        t2 = str(HiFiber(*objs))
    except Exception as e:      # noqa
        return "FAIL", "second HiFiber(...) on the same parsed objects raises %s: %s" % (type(e).__name__, str(e)[:120])
    if t1 != t2:
        return "FAIL", "second compilation from the same objects emits different text"
    return "ok", t1


def bounded(uni, tier, seed):
    ev, fails, samples, texts = 0, [], [], {}
    for path in _corpus():
        st, detail = _compile_twice(path)
        if st == "skip":
            continue
        ev += 1
        if st == "FAIL":
            fails.append({"name": "bounded/compile-twice", "detail": "%s: %s" % (path.rsplit("/", 1)[1], detail),
                          "witness": {"spec": path, "what": detail}})
        else:
            texts[path] = detail
        if len(samples) < 3:
            samples.append({"spec": path.rsplit("/", 1)[1]})
    # independence of earlier compilations in the same process
    paths = list(texts)
    for i, p in enumerate(paths[: (len(paths) if tier == "thorough" else 8)]):
        st, detail = _compile_twice(p)
        ev += 1
        if st != "ok" or detail != texts[p]:
            fails.append({"name": "bounded/history-independence", "detail": "%s compiled again after %d other specs differs"
                          % (p.rsplit("/", 1)[1], len(paths)), "witness": {"spec": p}})
    return {"evaluations": ev, "distinct_nontrivial": len(texts), "failures": fails, "samples": samples,
            "rule": "every tests/integration/*.yaml (with architecture/bindings/format when present): deep snapshots of "
                    "the parsed objects before/after HiFiber(...), second HiFiber(...) on the same objects, and "
                    "recompilation after all other specs were compiled in the same process (bounded)"}


def refute_extra(uni, e):
    for path in _corpus():
        st, detail = _compile_twice(path)
        if st == "FAIL":
            return {"spec": path, "what": detail, "how": "real HiFiber(...) run twice on the same parsed objects"}
    return None
