"""C18: stated mapping-legality rules are enforced for every instance."""
import ast
import importlib
from pyvc import structural, extract
from pyvc.driver import Extra
from props import common

ID = "C18"
LEVEL = "proof"
SIDECARS = ["contracts.tensor", "contracts.program", "contracts.program_c18", "contracts.equation",
            "contracts.partitioning", "contracts.guards"]
TARGETS = ["Tensor.__init__", "Program.__init__", "Program.__all_ranks",
           "Equation.__get_tensor", "Equation.__build_tensors_trees", "Equation.__build_active_tensors",
           "Equation.__build_einsum_ranks",
           "Partitioning.__is_static", "Partitioning.__nway_after_dyn", "Partitioning.__check_flatten",
           "TransEquation.__make_output_only_iter_expr", "TransEquation.make_iter_expr", "Bindings.__init__"]
EXPLANATION = (
    "Each stated rule has a guard function under a raise-iff contract (ValueError <=> the violation, stated over the "
    "names as written), proved for all inputs from the real source: duplicate ranks (Tensor.__init__, and "
    "Program.__init__ reaching it for every declared tensor and rank-order entry), undeclared / repeated tensors and "
    "terms over different rank sets (ir Equation builders; the rank universe that decides what a flattened rank is, "
    "Program.__all_ranks, is exactly the ranks of this Einsum's tensors), the flatten rules and n-way-after-occupancy "
    "(Partitioning.__check_flatten / __nway_after_dyn), projection into the output and output-only flattened ranks "
    "(translator, violation => ValueError), Einsum without accelerator config (Bindings.__init__). Must-reach of the "
    "guards from HiFiber.__init__ and the absence of exception handlers are structural lemmas checked on the AST. "
    "A bounded family of injected violations runs through the real entry points (not counted as proved).")
TRUSTED = ["lark observers and CoordMath.get_all_exprs as assumed in the sidecars",
           "must-reach of Partitioning.__build_part_graph's calls is structural (dominance over the AST), not SMT"]
_mods = None


def _sidecars():
    global _mods
    if _mods is None:
        _mods = [importlib.import_module(m) for m in SIDECARS]
    return _mods


def _body(rel, qual):
    return extract.strip_doc(extract.module(rel).func(qual).body)


def extra(uni, tier, seed):
    out = []
    bad = structural.no_exception_handlers()
    out.append(Extra("structural/no exception handler in teaal (a raised ValueError reaches the caller)", not bad,
                     "; ".join(bad[:5])))
    # ir Equation.__init__ runs the four builders unconditionally
    b = [ast.unparse(s) for s in _body("teaal/ir/equation.py", "Equation.__init__")]
    want = ["self.__build_einsum_ranks()", "self.__build_tensors_trees()", "self.__build_active_tensors()"]
    out.append(Extra("reach/ir Equation.__init__ calls every builder unconditionally", all(w in b for w in want), str(b)))
    # Partitioning.__init__ -> __build_part_graph unconditionally
    b = [ast.unparse(s) for s in _body("teaal/ir/partitioning.py", "Partitioning.__init__")]
    out.append(Extra("reach/Partitioning.__init__ builds the partition graph unconditionally",
                     "self.__build_part_graph(partitioning)" in b, str(b[:4])))
    # __build_part_graph: for every non-empty entry the two guards come first
    fn = extract.module("teaal/ir/partitioning.py").func("Partitioning.__build_part_graph")
    ok, detail = False, ""
    for node in ast.walk(fn):
        if isinstance(node, ast.For) and ast.unparse(node.iter) == "all_parts.items()":
            stm = [ast.unparse(s) for s in node.body[:3]]
            ok = (stm[0].startswith("if not parts:") and "continue" in stm[0]
                  and stm[1].startswith("if Partitioning.__nway_after_dyn(parts):") and "raise ValueError" in stm[1]
                  and stm[2] == "self.__check_flatten(part_ranks, all_parts, ranks)")
            detail = str([s[:60] for s in stm])
    out.append(Extra("reach/__build_part_graph checks every non-empty entry before using it", ok, detail))
    # shape split after flattening: first statement under `if Partitioning.__is_static(part):`
    ok = False
    for node in ast.walk(fn):
        if isinstance(node, ast.If) and ast.unparse(node.test) == "Partitioning.__is_static(part)":
            first = node.body[0]
            ok = isinstance(first, ast.If) and ast.unparse(first.test) == "source_name not in self.orig_ranks" \
                and isinstance(first.body[0], ast.Raise) and "ValueError" in ast.unparse(first.body[0])
    out.append(Extra("reach/shape split on a non-original rank raises before an edge is added", ok, ""))
    # translator: make_iter_expr is called for every LoopNode
    tn = extract.module("teaal/trans/hifiber.py").func("HiFiber.__trans_nodes")
    ok = False
    for node in ast.walk(tn):
        if isinstance(node, ast.If) and ast.unparse(node.test) == "isinstance(node, LoopNode)":
            src = [ast.unparse(s) for s in node.body[:2]]
            ok = "self.eqn.make_iter_expr(" in src[1]
    out.append(Extra("reach/every LoopNode is translated through make_iter_expr", ok, ""))
    # Program.add_einsum builds Equation and Partitioning unconditionally; HiFiber.__init__ builds Program first
    b = " ".join(ast.unparse(s) for s in _body("teaal/ir/program.py", "Program.add_einsum")
                 if not isinstance(s, (ast.If, ast.For)))
    out.append(Extra("reach/add_einsum constructs the ir Equation unconditionally", "self.equation = Equation(" in b, ""))
    src = ast.unparse(extract.module("teaal/ir/program.py").func("Program.add_einsum"))
    out.append(Extra("reach/add_einsum constructs a Partitioning on both branches",
                     src.count("self.partitioning = Partitioning(") == 2, ""))
    # the rank universe Partitioning judges "flattened rank" / "partition level" by is the one proved for __all_ranks
    fn_ae = extract.module("teaal/ir/program.py").func("Program.add_einsum")
    assigns = [ast.unparse(n.value) for n in ast.walk(fn_ae) if isinstance(n, ast.Assign)
               and any(isinstance(t, ast.Name) and t.id == "ranks" for t in n.targets)]
    pcalls = [n for n in ast.walk(fn_ae) if isinstance(n, ast.Call) and isinstance(n.func, ast.Name) and n.func.id == "Partitioning"]
    ok = assigns == ["self.__all_ranks()"] and len(pcalls) == 2 and all(
        len(c.args) == 3 and isinstance(c.args[1], ast.Name) and c.args[1].id == "ranks" and not c.keywords for c in pcalls)
    out.append(Extra("reach/add_einsum hands Partitioning the rank set returned by __all_ranks (its only definition)", ok,
                     "assignments to ranks: %s; Partitioning(...) calls: %s" % (assigns, [ast.unparse(c) for c in pcalls])))
    b = [ast.unparse(s) for s in _body("teaal/ir/partitioning.py", "Partitioning.__init__")]
    writers = {m for m, fs in structural.methods_storing_fields("teaal/ir/partitioning.py", "Partitioning").items()
               if "orig_ranks" in fs or "orig_ranks[]" in fs}
    out.append(Extra("reach/Partitioning.orig_ranks is the constructor's `ranks` argument and is never rewritten",
                     b[0] == "self.orig_ranks = ranks" and writers == {"__init__"}, "%s; writers %s" % (b[0], sorted(writers))))
    b = [ast.unparse(s) for s in _body("teaal/trans/hifiber.py", "HiFiber.__init__")]
    out.append(Extra("reach/HiFiber.__init__ starts by building the Program", b[0] == "self.program = Program(einsum, mapping)", b[0]))
    return out


def refute(uni, ob, replay_dir):
    from props import legality_family
    if ob is not None and getattr(ob, "func", None):
        w = common.native_refute(uni, _sidecars(), ob, replay_dir)
        if w is not None:
            return w
    ev, dist, fails, _ = legality_family.sweep()
    if fails:
        w = dict(fails[0]["witness"])
        w["how"] = "violation injected into a legal specification, compiled by the real entry points"
        return w
    return None


def refute_extra(uni, e):
    return refute(uni, None, None)


def bounded(uni, tier, seed):
    from props import legality_family
    ev, dist, fails, samples = legality_family.sweep()
    return {"evaluations": ev, "distinct_nontrivial": dist, "failures": fails, "samples": samples,
            "rule": "props/legality_family.py: instances of every stated rule injected into legal specifications "
                    "(different positions, tuple sizes, stack depths); Einsum/Mapping parsing + HiFiber(...) or "
                    "Bindings parsing must raise ValueError (bounded)"}
