"""A family of specifications that stresses statement placement (C10) and closedness (C06): flattening with one or two
occupancy splits underneath, tensors that hold only part of a flattened rank (discordant access), dynamic partitioning of
the rank below a discordant access, index math on a statically partitioned rank next to a second input that carries the
same rank - each under EVERY permutation of the final loop ranks that the compiler accepts."""
import itertools

MM = ({"A": "[K, M]", "B": "[K, N]", "Z": "[M, N]"}, "Z[m, n] = A[k, m] * B[k, n]")
FAMILY = [
    # (declaration, expression, partitioning lines, final loop ranks, chains of levels outermost -> innermost)
    (MM, ["K: [uniform_shape(4)]", "(M, K0): [flatten()]", "MK0: [uniform_occupancy(A.5), uniform_occupancy(A.2)]"],
     ["K1", "MK02", "MK01", "MK00", "N"], [["K1", "MK02", "MK01", "MK00"]]),
    (MM, ["K: [uniform_shape(4)]", "(M, K0): [flatten()]", "MK0: [uniform_occupancy(A.5)]"], ["K1", "MK01", "MK00", "N"],
     [["K1", "MK01", "MK00"]]),
    (MM, ["(M, K): [flatten()]", "N: [uniform_occupancy(B.4)]"], ["MK", "N1", "N0"], [["N1", "N0"]]),
    (MM, ["(M, K): [flatten()]", "MK: [uniform_occupancy(A.4)]"], ["MK1", "MK0", "N"], [["MK1", "MK0"]]),
    (MM, ["(M, K): [flatten()]", "MK: [uniform_occupancy(A.4)]", "N: [uniform_occupancy(B.3)]"], ["MK1", "MK0", "N1", "N0"],
     [["MK1", "MK0"], ["N1", "N0"]]),
    (MM, ["K: [uniform_occupancy(A.4)]", "N: [uniform_occupancy(B.3)]"], ["K1", "K0", "M", "N1", "N0"],
     [["K1", "K0"], ["N1", "N0"]]),
    (MM, ["K: [uniform_shape(4), uniform_occupancy(A.2)]"], ["K2", "K1", "K0", "M", "N"], [["K2", "K1", "K0"]]),
    (MM, ["K: [uniform_occupancy(A.6), uniform_occupancy(A.3)]"], ["K2", "K1", "K0", "M", "N"], [["K2", "K1", "K0"]]),
    # the two occupancy levels of one rank led by DIFFERENT tensors
    (MM, ["K: [uniform_occupancy(A.6), uniform_occupancy(B.3)]"], ["K2", "K1", "K0", "M", "N"], [["K2", "K1", "K0"]]),
    (MM, ["K: [uniform_occupancy(B.6), uniform_occupancy(A.3)]", "M: [uniform_occupancy(A.4)]"],
     ["K2", "K1", "K0", "M1", "M0", "N"], [["K2", "K1", "K0"], ["M1", "M0"]]),
    (({"F": "[S]", "I": "[W]", "G": "[Q, N]", "O": "[Q]"}, "O[q] = I[q + s] * F[s] * G[q, n]"),
     ["Q: [uniform_shape(10)]", "W: [follow(Q)]"], ["N", "Q1", "S", "Q0"], [["Q1", "Q0"]]),
    (({"F": "[S]", "I": "[W]", "G": "[Q, N, P]", "O": "[Q]"}, "O[q] = I[q + s] * F[s] * G[q, n, p]"),
     ["Q: [uniform_shape(10)]", "W: [follow(Q)]", "N: [uniform_shape(4)]", "(N0, P): [flatten()]"],
     ["Q1", "S", "Q0", "N1", "N0P"], [["Q1", "Q0"], ["N1", "N0P"]]),
    (({"F": "[S]", "I": "[W]", "G": "[Q]", "O": "[Q]"}, "O[q] = I[q + s] * F[s] * G[q]"),
     ["Q: [uniform_shape(6)]", "W: [follow(Q)]"], ["Q1", "S", "Q0"], [["Q1", "Q0"]]),
    # index math on a rank split by occupancy only; looping over the accessed tensor's own rank
    (({"F": "[S]", "I": "[W]", "O": "[Q]"}, "O[q] = I[q + s] * F[s]"),
     ["Q: [uniform_occupancy(I.10)]", "W: [follow(Q)]"], ["Q1", "W0", "Q0"], [["Q1", "Q0"], ["Q1", "W0"]]),
    (({"F": "[S]", "I": "[W]", "O": "[Q]"}, "O[q] = I[q + s] * F[s]"),
     ["Q: [uniform_occupancy(I.10)]", "W: [follow(Q)]"], ["Q1", "Q0", "S"], [["Q1", "Q0"]]),
    (({"F": "[S]", "I": "[W]", "O": "[Q]"}, "O[q] = I[q + s] * F[s]"),
     ["Q: [uniform_shape(6)]", "W: [follow(Q)]"], ["Q1", "W0", "Q0"], [["Q1", "Q0"], ["Q1", "W0"]]),
    # three ranks flattened, the flattened rank split again, operands holding one, two or all of them
    (({"A": "[K, M, J]", "B": "[K, N]", "D": "[K, J]", "Z": "[M, N]"}, "Z[m, n] = A[k, m, j] * B[k, n] * D[k, j]"),
     ["(K, M, J): [flatten()]", "KMJ: [uniform_occupancy(A.16)]"], ["KMJ1", "N", "KMJ0"], [["KMJ1", "KMJ0"]]),
    (({"A": "[K, M, J]", "B": "[K, N]", "D": "[K, J]", "Z": "[M, N]"}, "Z[m, n] = A[k, m, j] * B[k, n] * D[k, j]"),
     ["(K, M, J): [flatten()]"], ["KMJ", "N"], []),
    # an output whose flattened ranks are not contiguous / not in flattening order in its declaration
    (({"A": "[M, N, O]", "Z": "[M, O, N]"}, "Z[m, o, n] = A[m, n, o]"),
     ["(M, N, O): [flatten()]", "MNO: [uniform_occupancy(A.4)]"], ["MNO1", "MNO0"], [["MNO1", "MNO0"]]),
    # an output flattened over adjacent ranks in declaration order (its flattened and unflattened names coincide)
    (({"A": "[M, N, O]", "Z": "[M, N, O]"}, "Z[m, n, o] = A[m, n, o]"), ["(N, O): [flatten()]"], ["M", "NO"], []),
    (({"A": "[M, N, O]", "Z": "[M, N, O]"}, "Z[m, n, o] = A[m, n, o]"), ["(M, N, O): [flatten()]"], ["MNO"], []),
    (({"A": "[M, N, O]", "Z": "[N, M, O]"}, "Z[n, m, o] = A[m, n, o]"),
     ["(M, N, O): [flatten()]"], ["MNO"], []),
    (({"A": "[M, N, O, P]", "Z": "[P, M, O, N]"}, "Z[p, m, o, n] = A[m, n, o, p]"),
     ["(M, N, O): [flatten()]", "MNO: [uniform_occupancy(A.4)]"], ["P", "MNO1", "MNO0"], [["MNO1", "MNO0"]]),
    (({"A": "[I, J, K]", "B": "[J]", "Z": "[I]"}, "Z[i] = A[i, j, k] * B[j]"),
     ["(I, J): [flatten()]", "K: [uniform_occupancy(A.2)]"], ["IJ", "K1", "K0"], [["K1", "K0"]]),
]


def well_ordered(perm, chains):
    """every rank's partition levels appear outermost-to-innermost"""
    return all([perm.index(x) for x in ch] == sorted(perm.index(x) for x in ch) for ch in chains)


def specs(tier="quick", seed=0, only_well_ordered=True):
    """(name, yaml) for every permutation of the final loop ranks that keeps each rank's levels outermost-to-innermost
    (quick: every `step`-th of the larger sets, rotated by the seed). only_well_ordered=False: every permutation."""
    out = []
    n = 0
    for (decl, expr), part, ranks, chains in FAMILY:
        outn = expr.split("[", 1)[0].strip()
        perms = [p for p in itertools.permutations(ranks) if not only_well_ordered or well_ordered(p, chains)]
        step = 1 if tier == "thorough" or len(perms) <= 30 else 2
        for p in perms:
            n += 1
            if (n + seed) % step:
                continue
            y = "" if well_ordered(p, chains) else "# loop order puts a partition level above an outer level of the same rank\n"
            y += "einsum:\n  declaration:\n" + "".join("    %s: %s\n" % kv for kv in decl.items())
            y += "  expressions:\n    - %s\n" % expr
            y += "mapping:\n  partitioning:\n    %s:\n" % outn + "".join("      %s\n" % ln for ln in part)
            y += "  loop-order:\n    %s: [%s]\n" % (outn, ", ".join(p))
            out.append(("%s %s loop order %s" % (expr, part, list(p)), y))
    return out
