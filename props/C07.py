"""C07 (compile-time naming protocol): tensor variable names tell the truth at emission level."""
import ast
import glob
import importlib
import re
import time
from pyvc import extract
from pyvc.driver import Extra
from props import common

ID = "C07"
LEVEL = "proof"
SIDECARS = ["contracts.tensor", "contracts.names"]
TARGETS = ["Tensor.root_name", "Tensor.__get_rank", "Tensor.tensor_name", "Tensor.get_ranks", "Tensor.swizzle", "Tensor.update_ranks", "Tensor.from_fiber",
           "Tensor.fiber_name",
           "TransUtils.build_rank_ids", "TransUtils.build_set_rank_ids", "TransUtils.build_swizzle",
           "Header.make_get_root", "Header.make_tensor_from_fiber", "Header.make_swizzle", "Header.make_output"]
EXPLANATION = (
    "Proved for all tensor states on the real functions (HiFiber nodes modelled as constructor terms, so the emitted "
    "statement itself is the subject of the postcondition): tensor_name() is name + '_' + current rank ids (+ _flat); "
    "every statement emitted by Header.make_output / make_swizzle / make_tensor_from_fiber and "
    "TransUtils.build_swizzle / build_set_rank_ids binds or renames the variable spelled from the tensor's CURRENT "
    "ranks and carries rank_ids built from the same state; make_swizzle stays silent only if the name did not "
    "change; getRoot is taken from the named tensor. Structural: the only `<<` construction sites have the output's "
    "fiber / reference on the left, getPayloadRef only for the output. The rename protocol of "
    "Partitioner.partition/unpartition and the restoration of the output's declared name are checked on the "
    "emitted statement trees of a family of real compilations (bounded). Run-time clauses (what fibertree objects "
    "hold, inputs unchanged when the program runs) are not applicable to this technique.")
TRUSTED = ["assumed frames of LoopOrder.apply / Program.apply_* on Tensor state (listed in evidence)"]
ASSUMPTIONS = ["run-time clauses of C07 are not applicable: no fibertree semantics is modelled"]
_mods = None


def _sidecars():
    global _mods
    if _mods is None:
        _mods = [importlib.import_module(m) for m in SIDECARS]
    return _mods


def extra(uni, tier, seed):
    out = []
    # (d) `<<` only with the output on the left
    sites = []
    for rel in extract.all_repo_modules("teaal/trans"):
        tree = extract.module(rel).tree
        for n in ast.walk(tree):
            if isinstance(n, ast.Call) and any(isinstance(a, ast.Call) and ast.unparse(a) == "OLtLt()" for a in n.args):
                sites.append((rel, n.lineno, ast.unparse(n)[:120]))
    ok = len(sites) == 2 and all(("EVar(output.fiber_name())" in t or "AVar(out_name)" in t) for _, _, t in sites)
    out.append(Extra("structural/every `<<` has the output's fiber or reference on the left", ok, str(sites)))
    src = ast.unparse(extract.module("teaal/trans/equation.py").func("Equation.make_update"))
    out.append(Extra("structural/the in-place update targets the output reference",
                     "out_name = " in src and "get_output()" in src.split("out_name = ")[1].split("\n")[0], ""))
    src = ast.unparse(extract.module("teaal/trans/header.py").func("Header.make_get_payload"))
    out.append(Extra("structural/getPayloadRef only for the output tensor",
                     "if tensor.get_is_output():\n        func = 'getPayloadRef'\n    else:\n        func = 'getPayload'" in src, ""))
    # footer: unpartition then the output flag is restored
    ffn = extract.module("teaal/trans/footer.py").func("Footer.make_footer")
    top = [ast.unparse(x) for x in extract.strip_doc(ffn.body)]
    out.append(Extra("structural/footer unpartitions the output unconditionally (a top-level statement, for the Einsum's own "
                     "output) and keeps its output flag",
                     "output = program.get_equation().get_output()" in top and "footer.add(partitioner.unpartition(output))" in top
                     and "output.set_is_output(True)" in top
                     and top.index("footer.add(partitioner.unpartition(output))") < top.index("output.set_is_output(True)"), str(top[:6])))
    return out


def refute(uni, ob, replay_dir):
    w = common.native_refute(uni, _sidecars(), ob, replay_dir)
    if w is None:
        b = bounded(uni, "quick", 0)
        if b["failures"]:
            w = dict(b["failures"][0]["witness"], how="rank-id protocol checked on the statement tree of a real compilation")
    return w


# ---------------------------------------------------------------------------------------------- bounded part
NAME_RE = re.compile(r"^([A-Z][A-Za-z0-9]*)_([A-Z][A-Z0-9]*)?(_flat)?$")


def _rank_ids(args):
    import teaal.hifiber as h
    for a in args:
        if isinstance(a, h.AParam) and a.name == "rank_ids" and isinstance(a.expr, h.EList):
            return [e.string for e in a.expr.list if isinstance(e, h.EString)]
    return None


def check_tree(stmt, declared):
    """walk the emitted statements in order; returns list of problems"""
    import teaal.hifiber as h
    obj = {}          # variable -> object id
    arity = {}        # object id -> number of ranks the object has (None: unknown)
    ids = {}          # object id -> rank ids or None
    inputs = set()    # object ids of user-supplied tensors
    counter = [0]
    problems = []

    sym = {}          # object id -> per rank the ROOT it is a level of (None: unknown), followed through splits / merges

    def root_of(rid):
        return re.sub(r"[0-9]+I?$", "", rid)

    def new_obj(r, inp=False, n=None):
        counter[0] += 1
        ids[counter[0]] = r
        sym[counter[0]] = [root_of(x) for x in r] if isinstance(r, list) else None
        arity[counter[0]] = len(r) if isinstance(r, list) else n
        if inp:
            inputs.add(counter[0])
        return counter[0]

    def is_tensor_name(v):
        m = NAME_RE.match(v)
        return bool(m) and m.group(1) in declared

    def read(v, where):
        if not is_tensor_name(v):
            return
        if v not in obj:
            # user-supplied input: its rank ids are what its name says (precondition on the user)
            m = NAME_RE.match(v)
            obj[v] = new_obj(None, inp=True, n=len(declared[m.group(1)]) if isinstance(declared, dict) else None)
            ids[obj[v]] = "__NAME__" + (m.group(2) or "")
            return
        r = ids[obj[v]]
        m = NAME_RE.match(v)
        want = m.group(2) or ""
        if isinstance(r, str):
            if r != "__NAME__" + want:
                problems.append("%s read at `%s` but holds the object of a variable named for ranks %s" % (v, where, r[8:]))
        elif r is None:
            problems.append("%s read at `%s` before its rank ids were set" % (v, where))
        elif "".join(r) != want:
            problems.append("%s read at `%s` while its rank ids are %s" % (v, where, r))

    def reads_in(e, where, skip=None):
        for x in _walk(e):
            if isinstance(x, h.EVar) and x is not skip:
                read(x.name, where)

    def _walk(e):
        yield e
        for k_, v_ in vars(e).items():
            vs = v_ if isinstance(v_, (list, tuple)) else ([x for kv in v_.items() for x in kv] if isinstance(v_, dict) else [v_])
            for x in vs:
                if isinstance(x, h.Base):
                    yield from _walk(x)
                elif isinstance(x, tuple):
                    for y in x:
                        if isinstance(y, h.Base):
                            yield from _walk(y)

    def do(s):
        if isinstance(s, h.SBlock):
            for x in s.stmts:
                do(x)
            return
        text = s.gen(0).split("\n")[0]
        if isinstance(s, h.SAssign) and isinstance(s.assn, h.AVar):
            v, e = s.assn.name, s.expr
            if isinstance(e, h.EFunc) and e.name == "Tensor":
                obj[v] = new_obj(_rank_ids(e.args))
            elif isinstance(e, h.EMethod) and isinstance(e.obj, h.EVar) and e.obj.name == "Tensor" and e.name == "fromFiber":
                obj[v] = new_obj(_rank_ids(e.args))
            elif isinstance(e, h.EMethod) and isinstance(e.obj, h.EVar) and e.name == "swizzleRanks":
                read(e.obj.name, text)
                src_n = arity.get(obj.get(e.obj.name))
                obj[v] = new_obj(_rank_ids(e.args))
                if src_n is not None and arity[obj[v]] is not None and arity[obj[v]] != src_n:
                    problems.append("`%s` swizzles a tensor of %d ranks into %d rank ids" % (text, src_n, arity[obj[v]]))
            elif isinstance(e, h.EVar):
                if is_tensor_name(e.name) and e.name not in obj:
                    read(e.name, text)
                if e.name in obj:
                    obj[v] = obj[e.name]          # alias
                elif v in obj:
                    del obj[v]
            elif isinstance(e, h.EMethod) and isinstance(e.obj, h.EVar) and e.obj.name in obj and \
                    re.match(r"split|merge|flatten|unflatten", e.name):
                reads_in(e, text, skip=e.obj)
                n0 = arity.get(obj[e.obj.name])
                lv = [a.expr.int for a in e.args if isinstance(a, h.AParam) and a.name == "levels" and isinstance(a.expr, h.EInt)]
                if n0 is None:
                    n1 = None
                elif e.name.startswith("split"):
                    n1 = n0 + 1
                elif e.name.startswith("unflatten"):
                    n1 = n0 + lv[0] if lv else None
                else:       # mergeRanks / flattenRanks
                    n1 = n0 - lv[0] if lv else None
                src = obj[e.obj.name]
                s0 = sym.get(src)
                if s0 is None and isinstance(ids.get(src), list):
                    s0 = [root_of(x) for x in ids[src]]
                dp = [a.expr.int for a in e.args if isinstance(a, h.AParam) and a.name == "depth" and isinstance(a.expr, h.EInt)]
                s1 = None
                if s0 is not None and dp and 0 <= dp[0] < len(s0):
                    d = dp[0]
                    if e.name.startswith("split"):
                        s1 = s0[:d] + [s0[d], s0[d]] + s0[d + 1:]           # both halves are levels of the same rank
                    elif e.name.startswith("merge") and lv and d + lv[0] < len(s0):
                        grp = s0[d:d + lv[0] + 1]
                        if len(set(grp)) != 1:
                            problems.append("`%s` merges levels of different ranks: %s" % (text, grp))
                        s1 = s0[:d] + [grp[0]] + s0[d + lv[0] + 1:]
                obj[v] = new_obj(None, n=n1)
                sym[obj[v]] = s1
            else:
                reads_in(e, text)
                if v in obj:
                    del obj[v]
            return
        if isinstance(s, h.SExpr) and isinstance(s.expr, h.EMethod) and isinstance(s.expr.obj, h.EVar) \
                and s.expr.name == "setRankIds":
            u = s.expr.obj.name
            if u in obj:
                if obj[u] in inputs:
                    problems.append("setRankIds applied in place to the user's input object via %s" % u)
                ids[obj[u]] = _rank_ids(s.expr.args)
                if sym.get(obj[u]) is not None and ids[obj[u]] is not None and len(sym[obj[u]]) == len(ids[obj[u]]):
                    off = [(x, r_) for x, r_ in zip(ids[obj[u]], sym[obj[u]]) if root_of(x) != r_ and x != r_]
                    if off:
                        problems.append("`%s` names a rank %s that is a level of rank %s" % (text, off[0][0], off[0][1]))
                sym[obj[u]] = [root_of(x) for x in ids[obj[u]]] if ids[obj[u]] is not None else None
                if arity.get(obj[u]) is not None and ids[obj[u]] is not None and len(ids[obj[u]]) != arity[obj[u]]:
                    problems.append("`%s` gives %d rank ids to a tensor that has %d ranks" % (text, len(ids[obj[u]]), arity[obj[u]]))
            return
        if isinstance(s, h.SFor):
            reads_in(s.expr, text)
            do(s.stmt)
            return
        if isinstance(s, h.SIf):
            for c, b in [s.if_] + list(s.elifs):
                reads_in(c, text)
                do(b)
            if s.else_ is not None:
                do(s.else_)
            return
        if isinstance(s, h.SFunc):
            do(s.body)
            return
        for k_, v_ in vars(s).items():
            if isinstance(v_, h.Base):
                reads_in(v_, text)
    do(stmt)
    # at the end every named tensor variable that was bound holds rank ids spelling its name
    for v, o in obj.items():
        if is_tensor_name(v):
            r, want = ids[o], (NAME_RE.match(v).group(2) or "")
            if r is None:
                problems.append("%s is left without rank ids at the end of the program" % v)
            elif not isinstance(r, str) and "".join(r) != want:
                problems.append("%s ends with rank ids %s" % (v, r))
            elif isinstance(r, str) and r != "__NAME__" + want:
                problems.append("%s ends holding the object named for ranks %s" % (v, r[8:]))
    return problems, obj, ids


EXTRA_SPECS = [
    ("output rank named I, shape split", """
einsum:
  declaration:
    A: [I, K]
    Z: [I, K]
  expressions:
    - Z[i, k] = A[i, k]
mapping:
  partitioning:
    Z:
      I: [uniform_shape(4)]
  loop-order:
    Z: [I1, I0, K]
"""),
    ("output rank named I, occupancy split, consumed by a second Einsum", """
einsum:
  declaration:
    A: [I, J]
    T: [I, J]
    Z: [I]
  expressions:
    - T[i, j] = A[i, j]
    - Z[i] = T[i, j]
mapping:
  partitioning:
    T:
      I: [uniform_occupancy(A.4)]
  loop-order:
    T: [I1, I0, J]
"""),
    ("three output ranks flattened together", """
einsum:
  declaration:
    A: [M, N, O, P]
    Z: [M, N, O, P]
  expressions:
    - Z[m, n, o, p] = A[m, n, o, p]
mapping:
  partitioning:
    Z:
      (N, O, P): [flatten()]
      NOP: [uniform_occupancy(A.4)]
  loop-order:
    Z: [M, NOP1, NOP0]
"""),
    ("four output ranks flattened together", """
einsum:
  declaration:
    A: [M, N, O, P]
    Z: [M, N, O, P]
  expressions:
    - Z[m, n, o, p] = A[m, n, o, p]
mapping:
  partitioning:
    Z:
      (M, N, O, P): [flatten()]
  loop-order:
    Z: [MNOP]
"""),
    ("two flattens of one input, the second needs no reordering", """
einsum:
  declaration:
    A: [I, J, K, M]
    Z: [I, J, K, M]
  expressions:
    - Z[i, j, k, m] = A[i, j, k, m]
mapping:
  partitioning:
    Z:
      K: [uniform_shape(4)]
      (I, J): [flatten()]
      (K0, M): [flatten()]
  loop-order:
    Z: [IJ, K1, K0M]
"""),
]


def _specs(tier):
    from pyvc.extract import REPO
    from props import defaults_family, cascade
    out = list(EXTRA_SPECS)
    for path in sorted(glob.glob(REPO + "/tests/integration/*.yaml")):
        out.append((path.rsplit("/", 1)[1], open(path).read()))
    for decl, expr, parts in defaults_family.SPECS:
        for part in parts:
            out.append((expr + str(part), defaults_family.yaml_of(decl, expr, part, False)))
    n = 0
    for ro in cascade.RANK_ORDERS:
        for combo in cascade.cascades(2):
            n += 1
            if tier != "thorough" and n % 6:
                continue
            out.append(("cascade %s %s" % (combo, ro), cascade.build_yaml(combo, ro)))
    # flattening with splits underneath, partial holders of flattened ranks, outputs whose flattened ranks are not
    # contiguous / not in flattening order: every level-respecting loop order
    from props import hoist_family
    out += hoist_family.specs(tier)
    return out


def bounded(uni, tier, seed):
    from teaal.parse import Einsum, Mapping
    from teaal.trans.hifiber import HiFiber
    ev, fails, samples, distinct = 0, [], [], set()
    for name, y in _specs(tier):
        try:
            es, ms = Einsum.from_str(y), Mapping.from_str(y)
            hf = HiFiber(es, ms)
        except Exception:      # noqa
            continue
        ev += 1
        distinct.add(str(hf))
        declared = dict(es.get_declaration())
        problems, obj, ids = check_tree(hf.hifiber, declared)
        # each Einsum's result is bound under its declared (or rank-order) name
        ro = ms.get_rank_orders()
        for expr in es.get_expressions():
            outn = str(next(expr.find_data("output")).children[0])
            ranks = ro.get(outn, es.get_declaration()[outn])
            want = outn + "_" + "".join(ranks)
            if want not in obj:
                problems.append("result of Einsum %s is not bound to %s" % (outn, want))
            elif isinstance(ids.get(obj[want]), list) and list(ids[obj[want]]) != list(ranks):
                # the name is a concatenation: ["M", "NO"] and ["M", "N", "O"] both spell MNO
                problems.append("result of Einsum %s is bound to %s but its rank ids are %s, not %s"
                                % (outn, want, ids[obj[want]], list(ranks)))
        if len(samples) < 3:
            samples.append({"spec": name[:80], "tensor_variables": sorted(v for v in obj if NAME_RE.match(v))[:8]})
        if problems:
            fails.append({"name": "bounded/rank-id-protocol", "detail": "%s: %s" % (name[:80], problems[0]),
                          "witness": {"spec": name, "yaml": y[:1500], "problems": problems[:5]}})
            if len(fails) > 4:
                break
    return {"evaluations": ev, "distinct_nontrivial": len(distinct), "failures": fails, "samples": samples,
            "rule": "statement trees of real compilations (integration specs, the C19 family, 2-Einsum cascades, the "
                    "placement family props/hoist_family.py): a "
                    "tensor variable <Name>_<Ranks> is only read, and finally left, while the rank ids its object got "
                    "from Tensor(...)/fromFiber/swizzleRanks/setRankIds spell <Ranks>; setRankIds never reaches a "
                    "user-supplied object; every Einsum's result is bound to <Output>_<declared or rank-order ranks> "
                    "(bounded)"}
