"""Specifications with index arithmetic (convolutions, strided accesses), with and without tiling / flattening, for the
bounded companions; each in plain, spacetime and metrics mode. Mappings the compiler rejects are skipped by callers."""
import itertools

EINSUMS = [
    # (label, declaration (ordered), expression, output, {rank of the projected input: (loop rank it follows)})
    ("conv", [("I", "[W]"), ("F", "[S]"), ("O", "[Q]")], "O[q] = I[q + s] * F[s]", "O"),
    ("conv-mask-first", [("G", "[Q]"), ("F", "[S]"), ("I", "[W]"), ("O", "[Q]")], "O[q] = G[q] * I[q + s] * F[s]", "O"),
    ("conv-mask-last", [("F", "[S]"), ("I", "[W]"), ("G", "[Q]"), ("O", "[Q]")], "O[q] = I[q + s] * F[s] * G[q]", "O"),
    ("conv-strided", [("I", "[W]"), ("F", "[S]"), ("O", "[Q]")], "O[q] = I[2 * q + s] * F[s]", "O"),
    ("strided-access", [("A", "[K]"), ("B", "[M]"), ("Z", "[M]")], "Z[m] = A[2 * m] * B[m]", "Z"),
]
CHANNELS = ("conv-channels-flat", [("G", "[Q]"), ("F", "[S]"), ("I", "[C, H, W]"), ("O", "[C, H, Q]")],
            "O[c, h, q] = G[q] * I[c, h, q + s] * F[s]", "O")

MAPPINGS = {
    "conv": [
        ([], [["Q", "S"], ["S", "Q"], ["W", "Q"], ["W", "S"]]),
        (["Q: [uniform_shape(4)]", "W: [follow(Q)]"], [["Q1", "Q0", "S"], ["Q1", "W0", "Q0"], ["Q1", "S", "Q0"], ["Q1", "W0", "S"]]),
        (["W: [uniform_shape(10)]"], [["W1", "W0", "Q"], ["W1", "W0", "S"], ["W1", "Q", "W0"]]),
        (["W: [uniform_occupancy(I.10)]"], [["W1", "W0", "Q"], ["W1", "W0", "S"]]),
        (["Q: [uniform_shape(8), uniform_shape(4)]", "W: [follow(Q)]"], [["Q2", "Q1", "Q0", "S"], ["Q2", "Q1", "W0", "Q0"]]),
    ],
    "strided-access": [
        ([], [["M"], ["K"]]),
        (["M: [uniform_shape(10)]", "K: [follow(M)]"], [["M1", "M0"], ["M1", "K0"]]),
        (["M: [uniform_shape(10), uniform_shape(5)]", "K: [follow(M)]"], [["M2", "M1", "M0"]]),
        (["K: [uniform_shape(10)]"], [["K1", "K0"]]),
    ],
}
for k in ("conv-mask-first", "conv-mask-last", "conv-strided"):
    MAPPINGS[k] = MAPPINGS["conv"]
CHANNEL_MAPPINGS = [
    (["Q: [uniform_shape(10)]", "W: [follow(Q)]", "(C, H): [flatten()]"], [["Q1", "CH", "W0", "Q0"], ["Q1", "CH", "Q0", "S"], ["CH", "Q1", "Q0", "S"]]),
    (["(C, H): [flatten()]"], [["CH", "Q", "S"], ["CH", "W", "Q"]]),
]

ACCEL = """architecture:
  acc:
  - name: System
    attributes:
      clock_frequency: 1000
    local:
    - name: Mul
      class: Compute
      attributes:
        type: mul
bindings:
  %s:
  - config: acc
    prefix: tmp/x
  - component: Mul
    bindings:
    - op: mul
"""


def specs(tier="quick"):
    """(name, mode, yaml) with mode in plain | spacetime | metrics"""
    out = []
    fam = [(e, MAPPINGS[e[0]]) for e in EINSUMS] + [(CHANNELS, CHANNEL_MAPPINGS)]
    for (label, decl, expr, outn), maps in fam:
        for plines, los in maps:
            for lo in los:
                y = "einsum:\n  declaration:\n" + "".join("    %s: %s\n" % kv for kv in decl)
                y += "  expressions:\n    - %s\nmapping:\n" % expr
                if plines:
                    y += "  partitioning:\n    %s:\n" % outn + "".join("      %s\n" % p for p in plines)
                y += "  loop-order:\n    %s: [%s]\n" % (outn, ", ".join(lo))
                name = "%s %s %s" % (label, plines, lo)
                out.append((name, "plain", y))
                st = y + "  spacetime:\n    %s:\n      space: [%s]\n      time: [%s]\n" % (
                    outn, lo[-1] + ".coord", ", ".join(r + (".pos" if i % 2 else ".coord") for i, r in enumerate(lo[:-1])))
                out.append((name, "spacetime", st))
                if tier == "thorough":
                    st2 = y + "  spacetime:\n    %s:\n      space: [%s]\n      time: [%s]\n      opt: slip\n" % (
                        outn, lo[0], ", ".join(r + ".pos" for r in lo[1:]))
                    out.append((name + " slip", "spacetime", st2))
                out.append((name, "metrics", y + ACCEL % outn))
    return out
