"""C19: omitted mapping means the canonical default."""
import importlib
from props import common

ID = "C19"
LEVEL = "proof"
SIDECARS = ["contracts.tensor", "contracts.equation", "contracts.equation_c19", "contracts.defaults"]
TARGETS = ["Equation.__get_tensor_ranks", "Equation.__get_term_ranks", "Equation.__build_einsum_ranks", "LoopOrder.__default_loop_order", "LoopOrder.add", "Mapping.__init__",
           "Partitioning.__update_ranks", "Partitioning.partition_names"]
EXPLANATION = (
    "Proved on the real functions: Equation.__get_tensor_ranks returns the ranks of an access in the order written "
    "(position = document offset of the index term, defined by unfolding over the lark tree); "
    "Equation.__get_term_ranks returns the ranks of a term's accesses without duplicates in order of first appearance "
    "(ghost witness lists give, for every returned rank, the access and position it was first seen at; no earlier "
    "position carries it; witnesses strictly increase; every rank of every access is present); LoopOrder.add uses the "
    "given order if present and otherwise exactly partition_ranks(einsum_ranks, all parts); Mapping.__init__ maps "
    "every omitted / None section to an empty dictionary and passes present ones through; "
    "Partitioning.__update_ranks replaces a partitioned rank in place by its levels (reversed partition_names); "
    "Partitioning.partition_names returns the collected level names in non-decreasing order of the priority recorded "
    "for them (list.sort modelled as a permutation in key order; the graph traversal that collects them is abstracted). "
    "The composite statement (identical emitted text for omitted vs written default) is served by a bounded family with an independently computed default.")
TRUSTED = ["lark Tree observers (find_data/children/data) as assumed in contracts/equation.py",
           "partition_names ascending by level (assumed, monitored natively)"]
_mods = None


def _sidecars():
    global _mods
    if _mods is None:
        _mods = [importlib.import_module(m) for m in SIDECARS]
    return _mods


def extra(uni, tier, seed):
    import ast
    from pyvc import extract
    from pyvc.driver import Extra
    out = []
    # "no partitioning" written out as an empty directive list is the same as leaving the rank out: the entry is
    # skipped before anything (graph node, leader map, priority) is recorded for it
    fn = extract.module("teaal/ir/partitioning.py").func("Partitioning.__build_part_graph")
    ok, detail = False, "loop over all_parts.items() not found"
    for node in ast.walk(fn):
        if isinstance(node, ast.For) and ast.unparse(node.iter) == "all_parts.items()":
            first = node.body[0]
            ok = (isinstance(first, ast.If) and ast.unparse(first.test) == "not parts"
                  and len(first.body) == 1 and isinstance(first.body[0], ast.Continue) and not first.orelse)
            detail = ast.unparse(first)[:80]
    out.append(Extra("structural/an empty directive list is skipped by __build_part_graph before anything is recorded", ok, detail))
    return out


def refute_extra(uni, e):
    return refute(uni, None, None)


def refute(uni, ob, replay_dir):
    w = common.native_refute(uni, _sidecars(), ob, replay_dir) if ob is not None else None
    if w is None:
        from props import defaults_family
        ev, dist, fails, _ = defaults_family.sweep()
        if fails:
            w = dict(fails[0]["witness"])
            w["how"] = "real compiler: omitted mapping vs explicitly written default (computed from the text alone)"
    return w


def bounded(uni, tier, seed):
    from props import defaults_family
    ev, dist, fails, samples = defaults_family.sweep()
    return {"evaluations": ev, "distinct_nontrivial": dist, "failures": fails, "samples": samples,
            "exhaustive": False,
            "rule": "props/defaults_family.py: 12 Einsum shapes x partitioning options; text compiled with the mapping "
                    "sections omitted must equal the text compiled with rank-order = declaration and loop-order = "
                    "output ranks as written + first appearance, partitioned ranks expanded in place (bounded)"}
