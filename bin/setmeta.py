#!/usr/bin/env python3
"""usage: setmeta.py <seeded dir> <check_result text> : record what the check reported for a seeded change"""
import json, sys
p = sys.argv[1].rstrip("/") + "/meta.json"
m = json.load(open(p))
m["check_result"] = sys.argv[2]
m["ran"] = "git -C /repo apply patch.diff; bin/check %s; git -C /repo checkout -- ." % m.get("property", "")
json.dump(m, open(p, "w"), indent=1)
