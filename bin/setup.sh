#!/bin/sh
# Build /verif/.venv offline: python 3.12 (same interpreter as /venv, so teaal and
# its deps import) + z3-solver / cvc5 / crosshair / deal / icontract from the wheelhouse.
set -e
cd "$(dirname "$0")/.."
V=.venv
if [ -x "$V/bin/python" ] && "$V/bin/python" -c "import z3, teaal, lark, networkx" 2>/dev/null; then
  exit 0
fi
rm -rf "$V"
/venv/bin/python -m venv "$V"
PIP_NO_INDEX=1 "$V/bin/pip" install -q --no-index --find-links /opt/veriftools/wheels z3-solver cvc5 crosshair-tool deal icontract jsonschema >/dev/null
SP=$("$V/bin/python" -c "import site; print(site.getsitepackages()[0])")
echo "import site; site.addsitedir('/venv/lib/python3.12/site-packages')" > "$SP/_repo.pth"
"$V/bin/python" -c "import z3, teaal, lark, networkx; print('setup ok', z3.get_version_string())"
