#!/bin/sh
# usage: confirm_seed.sh <worktree> <seed_dir> <dest /verif/seeded/ID> : confirm a seeded change in a scratch worktree
# (tests pass with it, demo fails with it and passes without), then store patch/demo/meta under /verif/seeded
WT=$1; SD=$2; DEST=$3
cd "$WT" || exit 2
git checkout -q -- . 
git apply "$SD/patch.diff" || { echo "patch does not apply"; exit 2; }
T=$(PYTHONPATH=$WT /venv/bin/python -m pytest -q -p no:cacheprovider -x 2>&1 | tail -1)
PYTHONPATH=$WT /venv/bin/python "$SD/demo.py" >/dev/null 2>&1; D1=$?
git checkout -q -- .
PYTHONPATH=$WT /venv/bin/python "$SD/demo.py" >/dev/null 2>&1; D0=$?
echo "tests_with_patch: $T | demo_with_patch_exit=$D1 | demo_clean_exit=$D0"
case "$T" in *passed*) ;; *) echo "NOT CONFIRMED (tests)"; exit 1;; esac
case "$T" in *failed*) echo "NOT CONFIRMED (tests failed)"; exit 1;; esac
[ "$D1" != 0 ] && [ "$D0" = 0 ] || { echo "NOT CONFIRMED (demo)"; exit 1; }
mkdir -p "$DEST"
cp "$SD/patch.diff" "$SD/demo.py" "$DEST/"
/venv/bin/python - "$SD/meta.json" "$DEST/meta.json" "$T" <<'PY'
import json, sys
m = json.load(open(sys.argv[1]))
m["confirmed"] = {"tests_with_patch": sys.argv[3], "demo_with_patch": "fails", "demo_without_patch": "passes",
                  "how": "bin/confirm_seed.sh in a scratch git worktree of /repo (removed afterwards)"}
json.dump(m, open(sys.argv[2], "w"), indent=1)
PY
echo CONFIRMED "$DEST"
