#!/bin/sh
# run every registered quick check on the current tree (evidence files are rewritten); summary at the end
cd "$(dirname "$0")/.." || exit 3
[ -x .venv/bin/python ] || bin/setup.sh >/dev/null 2>&1 || { echo "setup failed"; exit 3; }
TIER=${1:-quick}
# run_all.sh quick baseline : also (re)write baseline.json (only on the clean tree, before committing)
BL=""; [ "$2" = "baseline" ] && BL="--write-baseline"
rc=0
for p in $(.venv/bin/python -c "import json; print(' '.join(c['property_id'] for c in json.load(open('MANIFEST.json'))['checks']))"); do
  bin/check $p --tier $TIER $BL > /tmp/runall_$p.log 2>&1; e=$?
  echo "$p exit=$e $(grep -c VIOLATION /tmp/runall_$p.log) violations: $(head -1 /tmp/runall_$p.log | cut -c1-150)"
  [ $e -ne 0 ] && rc=1
done
exit $rc
