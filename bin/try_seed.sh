#!/bin/sh
# usage: try_seed.sh <ID> <seeded dir> : apply the seeded patch to /repo, run the quick check, undo; prints exit code and VIOLATION lines
ID=$1; SD=$2
cd /verif
git -C /repo apply "$SD/patch.diff" || { echo "patch does not apply"; exit 2; }
# the evidence file written while the change is applied describes the CHANGED tree: keep the clean-tree one
cp "evidence/$ID.json" "/tmp/try_seed_evidence_$ID.json" 2>/dev/null
bin/check "$ID" > /tmp/try_seed.out 2>&1; RC=$?
git -C /repo checkout -- .
cp "/tmp/try_seed_evidence_$ID.json" "evidence/$ID.json" 2>/dev/null
echo "exit=$RC"
grep -E "VIOLATION|UNDECIDED|KNOWN|error|Error" /tmp/try_seed.out | cut -c1-260 | head -8
[ -z "$(git -C /repo status --short)" ] || echo "WARNING: /repo not clean"
