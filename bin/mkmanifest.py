#!/usr/bin/env python3
"""(re)generate MANIFEST.json from props/*.py metadata and the not-applicable table below"""
import importlib, json, os, sys
ROOT = os.path.dirname(os.path.dirname(os.path.abspath(__file__)))
sys.path.insert(0, ROOT)

NA = {
 "C01": "postcondition is the value computed by executing the emitted text on fibertree (absent here, no formal semantics); whole-compiler correctness, not a function contract (DESIGN 4/C01)",
 "C02": "same as C01; the deciding facts are the coordinate semantics of splitUniform/mergeRanks/swizzleRanks in fibertree",
 "C03": "same as C01; splitEqual/splitNonUniform/flattenRanks/getPayload semantics live in fibertree",
 "C04": "same as C01; project(trans_fn, interval), halo and interval tiling are fibertree arithmetic",
 "C11": "equality of computed tensors between metrics and plain mode is execution semantics of the emitted program",
}
NOT_BUILT = "within reach of the technique (DESIGN section 4) but the contracts are not built yet in this session; not claimed"

LEVEL_TEXT = {}

def main():
    props = [json.loads(l)["id"] for l in open(os.path.join(ROOT, "properties.jsonl"))]
    checks, na = [], []
    for pid in props:
        path = os.path.join(ROOT, "props", pid + ".py")
        if pid in NA:
            na.append({"property_id": pid, "reason": NA[pid]})
            continue
        if not os.path.exists(path):
            na.append({"property_id": pid, "reason": NOT_BUILT})
            continue
        m = importlib.import_module("props." + pid)
        checks.append({
            "property_id": pid,
            "quick_cmd": "bin/check %s --tier quick" % pid,
            "thorough_cmd": "bin/check %s --tier thorough" % pid,
            "evidence_file": "evidence/%s.json" % pid,
            "replay_cmd_template": "bin/check %s --replay {path}" % pid,
            "engine": "pyvc",
            "level_claimed": {"category": m.LEVEL, "text": m.EXPLANATION, "design_ref": "DESIGN.md section 4, " + pid},
            "level_note": "; ".join(getattr(m, "TRUSTED", [])) + "; pyvc encoding of the Python subset; z3/cvc5; assumed dependency contracts listed in evidence.assumptions",
            "technique": getattr(m, "TECHNIQUE", "contract-based deductive verification: VCs generated from the real functions' AST under sidecar contracts, discharged by z3/cvc5"),
        })
    man = {
        "version": 1,
        "setup_cmd": "bin/setup.sh",
        "hooks": {"guard": "TEAAL_VERIF", "enable": "none needed: contracts are sidecar files, /repo is not instrumented",
                  "baseline_off_cmd": "cd /repo && /venv/bin/python -m pytest -ra -q -p no:cacheprovider --timeout=900 --continue-on-collection-errors",
                  "source_commits": [], "add_only": True},
        "engines": [{"name": "pyvc", "path": "pyvc/", "serves_properties": [c["property_id"] for c in checks],
                     "kind_free_text": "Python-AST -> verification conditions (symbolic execution with loop invariants, callee contracts, frames) over sidecar contracts; z3 5.1 python API, cvc5 for z3's unknowns; native small-scope refuter on the real functions"}],
        "checks": checks,
        "not_applicable": na,
        "notes": "exit 0 held / 1 VIOLATION / 2 undecided (out-of-subset, contract target missing) / 3 checker error. See DESIGN.md.",
    }
    json.dump(man, open(os.path.join(ROOT, "MANIFEST.json"), "w"), indent=1)
    print("checks:", [c["property_id"] for c in checks], "NA:", [n["property_id"] for n in na])

main()
