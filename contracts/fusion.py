"""Sidecar contracts for teaal/ir/fusion.py (class Fusion) - property C13.

Ghost summary of the OPEN block, maintained by ghost code from specification functions of the inputs (never from
the implementation's own variables):
  g_cfg   configuration of the Einsums in the open block
  g_Tkey  abstract key of their common temporal prefix (seq_key = injective abstraction of a list's contents)
  g_U     union of the functional components bound by the Einsums of the open block
"""

MODULES = {"Fusion": "teaal/ir/fusion.py"}
CLASS_NAMES = ["FunctionalComponent"]
# Hardware.get_components is declared (and verified) in contracts/hardware.py, loaded before this sidecar

OBJ_CLASSES = {
    "Fusion": {
        "hardware": "Hardware", "blocks": "List[List[str]]", "curr_block": "List[str]", "fused_ranks": "List[str]",
        "curr_config": "Optional[str]", "components_used": "Set[str]", "component_dict": "Dict[str, List[str]]",
        "g_cfg": "Any", "g_Tkey": "Any", "g_U": "Set[str]",
    },
}

ASSUMPTIONS = [
    "assumed observers (heap-independent during Fusion.add_einsum): Program.get_equation().get_output().root_name(), "
    "Program.get_loop_order().get_ranks(), Program.get_spacetime().get_space(), Hardware.get_components, "
    "Hardware.get_config, Component.get_name, Component.get_bindings",
    "meta-lemma (induction over the calls of add_einsum, not an SMT obligation): the per-call postconditions "
    "`structure` and `legal_join` imply that blocks list every Einsum once, in order, contiguously, and that the "
    "Einsums of one block pairwise share config and temporal prefix and bind pairwise disjoint functional components",
    "precondition of Fusion.add_einsum assumed at its call site: the LoopOrder's rank list is not one of Fusion's block lists",
]


def einsum_of(program):
    return program.get_equation().get_output().root_name()


def loop_ranks_of(program):
    return program.get_loop_order().get_ranks()


def T_of(program):
    """temporal loop ranks ahead of the first spatial rank (all loop ranks if there is no spatial rank)"""
    return (loop_ranks_of(program)[:loop_ranks_of(program).index(program.get_spacetime().get_space()[0])]
            if len(program.get_spacetime().get_space()) > 0 else loop_ranks_of(program))


def U_of(hardware, einsum):
    """names of the functional components bound in this Einsum"""
    return {c.get_name() for c in hardware.get_components(einsum, FunctionalComponent)
            if len(c.get_bindings()[einsum]) > 0}


def fusion_inv(f):
    return (all(len(f.blocks[b]) > 0 for b in range(len(f.blocks)))
            and all(not same_ref(f.blocks[a], f.blocks[b]) for b in range(len(f.blocks)) for a in range(b))
            and all(not same_ref(f.blocks[b], f.fused_ranks) and not same_ref(f.blocks[b], f.blocks)
                    for b in range(len(f.blocks)))
            and not same_ref(f.blocks, f.fused_ranks)
            and implies(len(f.blocks) > 0,
                        same_ref(f.curr_block, f.blocks[len(f.blocks) - 1])
                        and f.curr_config == f.g_cfg
                        and seq_key(f.fused_ranks) == f.g_Tkey
                        and all(x in f.components_used for x in f.g_U))
            and implies(len(f.blocks) == 0, f.curr_config is None))


_OBS = dict(assumed=True, observer=True)
CONTRACTS = {
    # ---- assumed observers
    "Program.get_equation": dict(params=["self"], returns="IrEquation", **_OBS),
    "IrEquation.get_output": dict(params=["self"], returns="OpaqueTensor", **_OBS),
    "OpaqueTensor.root_name": dict(params=["self"], returns="str", **_OBS),
    "Program.get_loop_order": dict(params=["self"], returns="LoopOrder", **_OBS),
    "LoopOrder.get_ranks": dict(params=["self"], returns="List[str]", **_OBS),
    "Program.get_spacetime": dict(params=["self"], returns="Optional[SpaceTime]", **_OBS),
    "SpaceTime.get_space": dict(params=["self"], returns="List[str]", **_OBS),
    "Hardware.get_config": dict(params=["self", "einsum"], returns="str", **_OBS),
    "Component.get_name": dict(params=["self"], returns="str", **_OBS),
    "Component.get_bindings": dict(params=["self"], returns="Dict[str, List[Any]]", **_OBS),

    # ---- Fusion
    "Fusion.__init__": dict(
        modifies=["self.hardware", "self.blocks", "self.curr_block", "self.fused_ranks", "self.curr_config",
                  "self.components_used", "self.component_dict"],
        ghost_exit="self.g_cfg = None\nself.g_Tkey = None\nself.g_U = set()\n",
        ensures=[("inv", "fusion_inv(self)"), ("no_blocks", "len(self.blocks) == 0"),
                 ("hardware", "same_ref(self.hardware, hardware)")],
    ),
    "Fusion.add_einsum": dict(
        kinds={"program": "Program"},
        requires=["fusion_inv(self)",
                  "all(not same_ref(self.blocks[b], loop_ranks_of(program)) for b in range(len(self.blocks)))",
                  "not same_ref(self.blocks, loop_ranks_of(program))",
                  "implies(program.get_spacetime() is not None and len(program.get_spacetime().get_space()) > 0, "
                  "        program.get_spacetime().get_space()[0] in loop_ranks_of(program))"],
        raises={"ValueError": "program.get_spacetime() is None"},
        modifies=["self.blocks[]", "self.curr_block", "self.curr_block[]", "self.fused_ranks", "self.curr_config",
                  "self.components_used", "self.component_dict[]"],
        ghost_entry="g_nblocks = len(self.blocks)\n",
        ghost_exit=(
            "g_joined = len(self.blocks) == g_nblocks\n"
            "self.g_U = (self.g_U | U_of(self.hardware, einsum_of(program))) if g_joined "
            "else U_of(self.hardware, einsum_of(program))\n"
            "self.g_cfg = self.g_cfg if g_joined else self.hardware.get_config(einsum_of(program))\n"
            "self.g_Tkey = self.g_Tkey if g_joined else seq_key(T_of(program))\n"),
        ensures_env="exit",
        ensures=[
            ("structure",
             "(len(self.blocks) == old(len(self.blocks)) and len(self.blocks) > 0 "
             " and all(same_ref(self.blocks[b], old(self.blocks)[b]) for b in range(len(self.blocks))) "
             " and all(self.blocks[b] == old(self.blocks)[b] for b in range(len(self.blocks) - 1)) "
             " and self.blocks[len(self.blocks) - 1] == old(self.blocks)[len(self.blocks) - 1] + [einsum_of(program)]) "
             "or (len(self.blocks) == old(len(self.blocks)) + 1 "
             " and all(same_ref(self.blocks[b], old(self.blocks)[b]) and self.blocks[b] == old(self.blocks)[b] "
             "         for b in range(len(self.blocks) - 1)) "
             " and self.blocks[len(self.blocks) - 1] == [einsum_of(program)])"),
            ("legal_join",
             "implies(len(self.blocks) == old(len(self.blocks)), "
             "        self.hardware.get_config(einsum_of(program)) == old(self.g_cfg) "
             "        and seq_key(T_of(program)) == old(self.g_Tkey) "
             "        and U_of(self.hardware, einsum_of(program)).isdisjoint(old(self.g_U)))"),
            ("Inv.structure", "all(len(self.blocks[b]) > 0 for b in range(len(self.blocks))) "
                              "and all(not same_ref(self.blocks[a], self.blocks[b]) for b in range(len(self.blocks)) for a in range(b))"),
            ("Inv.open_block", "len(self.blocks) > 0 and same_ref(self.curr_block, self.blocks[len(self.blocks) - 1])"),
            ("Inv.same_config", "self.curr_config == self.g_cfg"),
            ("Inv.same_temporal", "seq_key(self.fused_ranks) == self.g_Tkey"),
            ("Inv.components_cover", "all(x in self.components_used for x in self.g_U)"),
            ("Inv", "fusion_inv(self)"),
        ],
        loops={0: dict(idx="k",
                       inv=[("used", "all(implies(len(cs[j].get_bindings()[einsum]) > 0, "
                                     "cs[j].get_name() in components_used) for j in range(k))"),
                            ("cs", "same_ref(cs, self.hardware.get_components(einsum, FunctionalComponent))")],
                       ghost_pre="cs = self.hardware.get_components(einsum, FunctionalComponent)\n",
                       modifies=["components_used[]"])},
    ),
    "Fusion.add_component": dict(
        modifies=["self.component_dict[einsum][]"],
        requires=["einsum in self.component_dict"],
        ensures=[("appended", "self.component_dict[einsum] == old(self.component_dict[einsum]) + [component]")],
    ),
    "Fusion.get_blocks": dict(pure=True, ensures=[("view", "same_ref(result, self.blocks)")]),
    "Fusion.get_components": dict(pure=True, requires=["einsum in self.component_dict"],
                                  ensures=[("view", "same_ref(result, self.component_dict[einsum])")]),
}


# ---------------------------------------------------------------- native side (refuter / replay)
def native_globals():
    # "functional component" as DECLARED in contracts/hardware.py (not as the repository's class statement says): the
    # native evaluation of U_of then does not follow a re-parented class
    import teaal.ir.component as comp
    from contracts.hardware import _HIER

    def descends(c):
        return c == "FunctionalComponent" or any(descends(b) for b in _HIER.get(c, []))
    return {"FunctionalComponent": tuple(getattr(comp, c) for c in sorted(_HIER) if descends(c) and hasattr(comp, c))}


_ST = {"N": ("[N]", "[M, K]"), "K": ("[K]", "[M, N]"), "none": ("[]", "[M, K, N]")}
_LO = {"MKN": "[M, K, N]", "KMN": "[K, M, N]"}


def _yaml(history):
    names = ["T", "Z", "Y"][:len(history)]
    exprs = ["T[k, m, n] = A[k, m] * B[k, n]", "Z[k, m, n] = T[k, m, n] * C[m, n]",
             "Y[k, m, n] = Z[k, m, n] * D[m, n]"][:len(history)]
    y = "einsum:\n  declaration:\n    A: [K, M]\n    B: [K, N]\n    C: [M, N]\n    D: [M, N]\n"
    for n in names:
        y += "    %s: [K, M, N]\n" % n
    y += "  expressions:\n" + "".join("  - %s\n" % e for e in exprs)
    y += "mapping:\n  loop-order:\n" + "".join("    %s: %s\n" % (n, _LO[h[3]]) for n, h in zip(names, history))
    y += "  spacetime:\n"
    for n, (cfg, st, comp, lo) in zip(names, history):
        sp, tm = _ST[st]
        if st == "none":
            tm = _LO[lo]
        elif lo == "KMN":
            tm = {"N": "[K, M]", "K": "[M, N]"}[st]
        y += "    %s:\n      space: %s\n      time: %s\n" % (n, sp, tm)
    y += ("format:\n  Z:\n    default:\n      rank-order: [M, N]\n      M:\n        format: C\n      N:\n"
          "        format: C\n        pbits: 32\n")
    y += ("architecture:\n  configA:\n  - name: System\n    attributes:\n      clock_frequency: 1000\n    local:\n    - name: FPMul0\n      class: compute\n"
          "      attributes:\n        type: mul\n    - name: FPMul1\n      class: compute\n      attributes:\n"
          "        type: mul\n    - name: Seq0\n      class: Sequencer\n      attributes:\n        num_ranks: 3\n"
          "  configB:\n  - name: System\n    attributes:\n      clock_frequency: 1000\n    local:\n    - name: FPMul0\n      class: compute\n"
          "      attributes:\n        type: mul\n    - name: FPMul1\n      class: compute\n      attributes:\n"
          "        type: mul\n")
    y += "bindings:\n"
    for n, (cfg, st, comp, lo) in zip(names, history):
        y += "  %s:\n  - config: config%s\n    prefix: tmp/%s\n" % (n, cfg, n)
        if comp == "e0":
            y += "  - component: FPMul0\n    bindings: []\n"
        elif comp == "s":
            # a sequencer (a functional component that is neither compute nor intersector), only in configA
            y += "  - component: Seq0\n    bindings:\n    - rank: K\n"
        else:
            for c in comp:
                y += "  - component: FPMul%s\n    bindings:\n    - op: mul\n" % c
    return y


def _histories(maxlen=3):
    """decisive small histories first: one config, then everything of length <= 2"""
    import itertools
    core = [("A", st, comp, lo) for st in ("N", "none") for comp in ("", "0", "e0", "1", "s") for lo in ("MKN", "KMN")]
    full = [(cfg, st, comp, lo) for cfg in "AB" for st in ("N", "K", "none") for comp in ("", "0", "1", "01", "e0")
            for lo in ("MKN", "KMN")]
    seen = set()
    for n in range(1, maxlen + 1):
        for h in itertools.product(core, repeat=n):
            if n == 3 and (h[0][3] != "MKN" or h[1][3] != "MKN"):
                continue
            seen.add(h)
            yield list(h)
    for n in range(1, min(maxlen, 2) + 1):
        for h in itertools.product(full, repeat=n):
            if h not in seen:
                yield list(h)


def _gen_add_einsum(maxlen=3):
    from teaal.ir.fusion import Fusion
    from teaal.ir.hardware import Hardware
    from teaal.ir.program import Program
    from teaal.parse import Einsum, Mapping, Architecture, Bindings
    for h in _histories(maxlen):
        y = _yaml(h)
        program = Program(Einsum.from_str(y), Mapping.from_str(y))
        program.add_einsum(0)
        hardware = Hardware(Architecture.from_str(y), Bindings.from_str(y), program)
        program.reset()
        f = Fusion(hardware)
        f.g_cfg, f.g_Tkey, f.g_U = None, None, set()
        f._history = h
        for i in range(len(h)):
            program.add_einsum(i)
            before = len(f.component_dict)
            yield f, (program,)
            if len(f.component_dict) == before:      # consumer did not run the call
                f.add_einsum(program)
            program.reset()


GEN = {"Fusion.add_einsum": _gen_add_einsum}
