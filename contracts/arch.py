"""Sidecar contract for teaal/parse/arch.py Architecture.__init__ (C17 / C14: instance count N+1 of a level name).
The traversal (a worklist over nested YAML dictionaries) is not specified as a whole; what is proved is a
per-visit lemma: each visited level dictionary gets its `name` and `num` from the level name it carried when it was
visited - `num` is 1 for NAME and N + 1 for NAME[0..N], whatever was visited before."""

MODULES = {"Architecture": "teaal/parse/arch.py", "LevelParser": None}
OPAQUE_ATTRS = {"Tree": {"data": "str", "children": "List[Any]"}}
OBJ_CLASSES = {"Architecture": {"yaml": "Optional[Dict[str, Dict[str, List[Dict[str, Any]]]]]"}}
CLASS_NAMES = ["Tree"]
ASSUMPTIONS = [
    "assumed observer: LevelParser.parse(text) (lark; acceptance itself is the bounded grammar half of C17) returns a "
    "Tree whose data is 'single' or 'multiple', children[0] the NAME token and, for 'multiple', children[1] the NUMBER "
    "token (never a Tree)",
    "Architecture.__init__: the YAML level dictionaries are distinct objects (a tree). A dictionary shared through a "
    "YAML alias is visited twice; that case is outside this lemma and is covered by the bounded architecture-tree family",
]


def level_num(written):
    """instance count of a level name as written"""
    return (1 if LevelParser.parse(written).data == "single" else int(LevelParser.parse(written).children[1]) + 1)


CONTRACTS = {
    "LevelParser.parse": dict(params=["info"], returns="Tree", assumed=True, observer=True,
                              ensures=[("kinds", "result.data == 'single' or result.data == 'multiple'"),
                                       ("number_is_a_token", "implies(result.data == 'multiple', not isinstance(result.children[1], Tree))")]),
    "Architecture.__init__": dict(
        kinds={"yaml": "Optional[Dict[str, Dict[str, List[Dict[str, Any]]]]]"},
        local_kinds={"subtrees": "Dict[str, List[Dict[str, Any]]]"},
        modifies=["self.yaml", "*[]"],
        raises={"ValueError": None},
        ghost_after={
            "tree = subtrees[config].pop()": "g_written = tree['name']\n",
            "if 'local' not in tree.keys()":
                "assert tree['num'] == level_num(g_written)\n"
                "assert tree['name'] == str(LevelParser.parse(g_written).children[0])\n",
        },
        abstract_loops={3: dict(modifies=["*[]"], why="defaults the `attributes` of the level's local components")},
        ensures=[],
    ),
}
