"""C18 view of Program.__init__: duplicate ranks in a declaration or in a rank-order entry are rejected, for every
declared tensor (must-reach + raise-iff). Overrides the C05 contract of the same function."""
from contracts.program import OBJ_CLASSES, MODULES, CONFIG      # noqa: F401

ASSUMPTIONS = [
    "Einsum.get_declaration / get_expressions and Mapping.get_rank_orders are observers of the parser objects",
]


def dup_violation(einsum, mapping):
    return (any(not distinct(einsum.get_declaration()[n]) for n in einsum.get_declaration())
            or any(n in mapping.get_rank_orders() and not distinct(mapping.get_rank_orders()[n])
                   for n in einsum.get_declaration()))


CONTRACTS = {
    "Einsum.get_declaration": dict(params=["self"], returns="Dict[str, List[str]]", observer=True, assumed=True),
    "Einsum.get_expressions": dict(params=["self"], returns="List[Tree]", observer=True, assumed=True),
    "Mapping.get_rank_orders": dict(params=["self"], returns="Dict[str, List[str]]", observer=True, assumed=True),
    "Program.__init__": dict(
        modifies=["self.einsum", "self.mapping", "self.decl_tensors", "self.tensors", "self.einsums"] + CONFIG,
        raises={"ValueError": "dup_violation(einsum, mapping)"},
        ensures=[("one_tensor_per_declared_name", "all(n in self.tensors for n in einsum.get_declaration())")],
        loops={
            0: dict(idx="k0", enum="dkeys", modifies=["self.decl_tensors[]"],
                    inv=[("own", "fresh(self.decl_tensors)"),
                         ("keys", "forall(lambda x: (x in self.decl_tensors) == any(dkeys[j] == x for j in range(k0)))"),
                         ("distinct_so_far", "all(distinct(declaration[dkeys[j]]) for j in range(k0))"),
                         ("decl_tensors", "all(t.rank_ptr == 0 and distinct(t.ranks) for t in self.decl_tensors.values())"),
                         ("names", "all(self.decl_tensors[dkeys[j]].name == dkeys[j] for j in range(k0))")]),
            1: dict(idx="k1", enum="tkeys", modifies=["self.tensors[]"],
                    inv=[("own", "fresh(self.tensors) and fresh(self.decl_tensors) and not same_ref(self.tensors, self.decl_tensors)"),
                         ("keys", "forall(lambda x: (x in self.tensors) == any(tkeys[j] == x for j in range(k1)))"),
                         ("distinct_so_far", "all(implies(tkeys[j] in rank_orders, distinct(rank_orders[tkeys[j]])) for j in range(k1))"),
                         ("decl_tensors", "all(t.rank_ptr == 0 and distinct(t.ranks) for t in self.decl_tensors.values())")]),
        },
        abstract_loops={2: dict(modifies=["self.einsums[]"], why="collects output names from lark trees")},
    ),
}
