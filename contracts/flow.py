"""Sidecar contracts for teaal/ir/flow_graph.py (FlowGraph.__hoist/__sort/__build_loop_nest) and
teaal/trans/hifiber.py (HiFiber.__trans_nodes) - property C10."""

MODULES = {"FlowGraph": "teaal/ir/flow_graph.py", "HiFiber": "teaal/trans/hifiber.py",
           "RankNode": "teaal/ir/flow_nodes.py"}
CLOSED_HIERARCHIES = ["Node"]
HIERARCHY_OUT_OF_SCOPE = {
    "teaal/ir/part_nodes.py:PartitioningNode": "node of the partitioning graph (Partitioning.graph); never placed in a FlowGraph",
    "teaal/ir/part_nodes.py:FlattenNode": "node of the partitioning graph; never placed in a FlowGraph",
    "teaal/ir/part_nodes.py:RankNode": "node of the partitioning graph; never placed in a FlowGraph",
}

OBJ_CLASSES = {
    "FlowGraph": {"program": "Program", "metrics": "Optional[Metrics]", "graph": "DiGraph",
                  "sorted": "List[Node]", "iter_map": "Dict[str, List[str]]"},
}
NODE_CLASSES = ["EagerInputNode", "EndLoopNode", "FiberNode", "FromFiberNode", "GetPayloadNode", "GetRootNode",
                "IntervalNode", "LoopNode", "MetricsFooterNode", "MetricsHeaderNode", "MetricsNode", "OtherNode",
                "PartNode", "RankNode", "SwizzleNode", "TensorNode"]
BASES = {c: ["Node"] for c in NODE_CLASSES}
BASES["Node"] = []
_ONE = lambda f: {"fields": [(f, "str")], "getters": {"get_" + f.rstrip("_"): f}}      # noqa: E731
VAL_CLASSES = {
    "Node": {"fields": [], "getters": {}},
    "LoopNode": _ONE("rank"), "EndLoopNode": _ONE("rank"), "IntervalNode": _ONE("rank"),
    "MetricsFooterNode": _ONE("rank"), "MetricsHeaderNode": _ONE("rank"),
    "MetricsNode": {"fields": [("type_", "str")], "getters": {"get_type": "type_"}},
    "OtherNode": {"fields": [("type_", "str")], "getters": {"get_type": "type_"}},
    "FiberNode": _ONE("fiber"), "TensorNode": _ONE("tensor"),
    "EagerInputNode": {"fields": [("rank", "str"), ("tensors", "List[str]")],
                       "getters": {"get_rank": "rank", "get_tensors": "tensors"}},
    "FromFiberNode": {"fields": [("tensor", "str"), ("rank", "str")], "getters": {"get_tensor": "tensor", "get_rank": "rank"}},
    "RankNode": {"fields": [("tensor", "str"), ("rank", "str")], "getters": {"get_tensor": "tensor", "get_rank": "rank"}},
    "GetPayloadNode": {"fields": [("tensor", "str"), ("ranks", "List[str]")], "getters": {"get_tensor": "tensor", "get_ranks": "ranks"}},
    "GetRootNode": {"fields": [("tensor", "str"), ("ranks", "List[str]")], "getters": {"get_tensor": "tensor", "get_ranks": "ranks"}},
    "PartNode": {"fields": [("tensor", "str"), ("ranks", "Any")], "getters": {"get_tensor": "tensor", "get_ranks": "ranks"}},
    "SwizzleNode": {"fields": [("tensor", "str"), ("ranks", "List[str]"), ("type_", "str")],
                    "getters": {"get_tensor": "tensor", "get_ranks": "ranks", "get_type": "type_"}},
}

UF = {"E": (["V", "V", "V"], "Bool"), "Desc": (["V", "V", "V"], "Bool")}
AXIOMS = [
    # networkx.descendants(G, n) = least set containing the successors of n and closed under successor;
    # the two consequences used by the proof:
    "forall(lambda g, a, b: implies(E(g, a, b), Desc(g, a, b)))",
    "forall(lambda g, a, b, c: implies(Desc(g, a, b) and E(g, b, c), Desc(g, a, c)))",
]
ASSUMPTIONS = [
    "assumed networkx contracts: E(G,a,b) is the edge relation of the DiGraph at the time of the call; "
    "nx.descendants(G,n) = {y | Desc(G,n,y)} with E <= Desc and Desc;E <= Desc; "
    "nx.topological_sort(G) enumerates every node once with no edge from a later to an earlier position",
    "flow-graph nodes are compared structurally (Node.__eq__ over class and key); the graph and the sorted list "
    "hold the same node values",
    "the graph is not modified by __hoist (it only reads self.graph)",
]


def topo(g, xs):
    """no edge from a later to an earlier position"""
    return all(not E(g, xs[b], xs[a]) for b in range(len(xs)) for a in range(b))


def loop_ranks(fg):
    return fg.program.get_loop_order().get_ranks()


# ghost index witnesses: g_dst[q] = current position of the element that started at q; g_src = its inverse
_PERM = ("len(g_dst) == g_n and len(g_src) == g_n and "
         "all(0 <= g_dst[q] and g_dst[q] < g_n and g_src[g_dst[q]] == q "
         "    and self.sorted[g_dst[q]] == old(self.sorted)[q] for q in range(g_n)) and "
         "all(0 <= g_src[p] and g_src[p] < g_n and g_dst[g_src[p]] == p for p in range(g_n))")

CONTRACTS = {
    "Program.get_loop_order": dict(params=["self"], returns="LoopOrder", assumed=True, observer=True),
    "LoopOrder.get_ranks": dict(params=["self"], returns="List[str]", assumed=True, observer=True),
    "nx.descendants": dict(
        params=["g", "n"], returns="Set[Node]", assumed=True, fresh_result=True, pure=True,
        ensures=[("closure", "forall(lambda y: (y in result) == Desc(g, n, y))")]),

    "FlowGraph.__hoist": dict(
        requires=[("topological", "topo(self.graph, self.sorted)")],
        modifies=["self.sorted[]"],
        # list.index(LoopNode(rank)) is assumed to find the node: the loop nodes are in the list at entry (the caller's
        # obligation) and the list stays a rearrangement of the entry list (proved below); tracking where each loop
        # node currently sits (a second ghost map) made the proof unstable in both solvers and is not done
        assume_index_found=True,
        # g_orig: the list at entry; g_src[p]: the entry position of the node now at position p (mirrors every del /
        # insert of the real list). sorted[p] == g_orig[g_src[p]] with g_src injective into [0, n) is a rearrangement
        # of the entry list (pigeonhole: an injection of [0, n) into itself is a bijection - meta-lemma)
        ghost_entry="g_n = len(self.sorted)\ng_orig = self.sorted.copy()\ng_src = [q for q in range(len(self.sorted))]\n",
        ghost_after={"del self.sorted[i]": "g_x = g_src[i]\ndel g_src[i]\n",
                     "self.sorted.insert(loop, node)": "g_src.insert(loop, g_x)\n"},
        # native evaluation cannot interleave the ghost mirror: the witness map is recomputed from the two lists
        ghost_exit_native=("g_src = []\n_used = set()\n"
                           "for _x in self.sorted:\n"
                           "    _c = [q for q in range(len(g_orig)) if q not in _used and g_orig[q] == _x]\n"
                           "    g_src.append(_c[0] if _c else -1)\n"
                           "    _used.add(g_src[-1])\n"),
        ensures_env="exit",
        ensures=[("topological", "topo(self.graph, self.sorted)"),
                 ("same_list", "same_ref(self.sorted, old(self.sorted)) and len(self.sorted) == old(len(self.sorted))"),
                 ("rearrangement_of_the_entry_list",
                  "len(g_src) == g_n and all(0 <= g_src[p] and g_src[p] < g_n and self.sorted[p] == g_orig[g_src[p]] for p in range(g_n)) "
                  "and all(g_src[p] != g_src[q] for q in range(g_n) for p in range(q))"),
                 ("entry_list", "g_orig == old(self.sorted)")],
        loops={
            0: dict(idx="ko", modifies=["self.sorted[]", "g_src[]"],
                    inv=[("topo", "topo(self.graph, self.sorted)"),
                         ("len", "len(self.sorted) == g_n and 0 <= end and end <= g_n"),
                         ("perm", "len(g_src) == g_n and all(0 <= g_src[p] and g_src[p] < g_n and self.sorted[p] == g_orig[g_src[p]] for p in range(g_n))"),
                         ("injective", "all(g_src[p] != g_src[q] for q in range(g_n) for p in range(q))"),
                         ("own", "not same_ref(g_src, self.sorted) and not same_ref(g_orig, self.sorted) and not same_ref(g_orig, g_src)")]),
            1: dict(modifies=["self.sorted[]", "g_src[]"],
                    inv=[("bounds", "0 <= loop and loop < i and end <= g_n and len(self.sorted) == g_n"),
                         ("loop_at", "self.sorted[loop] == LoopNode(rank)"),
                         ("between_are_descendants",
                          "all(Desc(self.graph, LoopNode(rank), self.sorted[j]) for j in range(loop + 1, i))"),
                         ("topo", "topo(self.graph, self.sorted)"),
                         ("perm", "len(g_src) == g_n and all(0 <= g_src[p] and g_src[p] < g_n and self.sorted[p] == g_orig[g_src[p]] for p in range(g_n))"),
                         ("injective", "all(g_src[p] != g_src[q] for q in range(g_n) for p in range(q))"),
                         ("own", "not same_ref(g_src, self.sorted) and not same_ref(g_orig, self.sorted) and not same_ref(g_orig, g_src)")]),
        },
    ),
}

CONTRACTS["DiGraph.successors"] = dict(
    params=["self", "n"], returns="List[Node]", assumed=True, fresh_result=True, pure=True,
    ensures=[("edges", "forall(lambda y: (y in result) == E(self, n, y))")])

# ---------------------------------------------------------------- graph construction view: edges as a ghost set
OBJ_CLASSES["DiGraph"] = {"g_edges": "Set[Any]"}
MODULES["DiGraph"] = None


def chain_ok(ch, ranks):
    """StartLoop, Loop(r1..rn), Body, EndLoop(rn..r1), Footer"""
    return (len(ch) == 2 * len(ranks) + 3
            and ch[0] == OtherNode("StartLoop")
            and all(ch[1 + t] == LoopNode(ranks[t]) for t in range(len(ranks)))
            and ch[len(ranks) + 1] == OtherNode("Body")
            and all(ch[len(ranks) + 2 + t] == EndLoopNode(ranks[len(ranks) - 1 - t]) for t in range(len(ranks)))
            and ch[2 * len(ranks) + 2] == OtherNode("Footer"))


CONTRACTS.update({
    "DiGraph.add_edge": dict(
        params=["self", "u", "v"], returns="None", assumed=True,
        modifies=["self.g_edges[]"],
        ensures=[("added", "(u, v) in self.g_edges"),
                 ("monotone", "all(e in self.g_edges for e in old(self.g_edges))")]),
    "nx.topological_sort": dict(
        params=["g"], returns="List[Node]", assumed=True, fresh_result=True, pure=True,
        ensures=[("topological", "topo(g, result)")]),
    "FlowGraph.__sort": dict(
        modifies=["self.sorted"],
        ensures=[("topological", "topo(self.graph, self.sorted)")],
    ),
    "FlowGraph.__build_loop_nest": dict(
        modifies=["self.graph.g_edges[]"],
        fresh_result=True,
        ensures=[
            ("chain_shape", "chain_ok(result, loop_ranks(self))"),
            ("chain_edges", "all((result[t], result[t + 1]) in self.graph.g_edges for t in range(len(result) - 1))"),
            ("graphics_before_loops", "(OtherNode('Graphics'), OtherNode('StartLoop')) in self.graph.g_edges "
                                      "and (OtherNode('Output'), OtherNode('Graphics')) in self.graph.g_edges"),
            ("only_adds_edges", "all(e in self.graph.g_edges for e in old(self.graph.g_edges))"),
            # metrics mode: collection is opened between StartLoop and the first loop / body node and closed after
            # the last EndLoop, before the footer; the dump follows the footer (C12)
            ("metrics_bracket",
             "implies(self.metrics is not None, "
             "  (OtherNode('StartLoop'), MetricsNode('Start')) in self.graph.g_edges and "
             "  (MetricsNode('Start'), result[1]) in self.graph.g_edges and "
             "  (result[len(result) - 2], MetricsNode('End')) in self.graph.g_edges and "
             "  (MetricsNode('End'), OtherNode('Footer')) in self.graph.g_edges and "
             "  (OtherNode('Footer'), MetricsNode('Dump')) in self.graph.g_edges)"),
        ],
        loops={
            0: dict(idx="k0", inv=[("prefix", "len(chain) == 1 + k0 and chain[0] == OtherNode('StartLoop') and "
                                             "all(chain[1 + t] == LoopNode(loop_order[t]) for t in range(k0))")]),
            1: dict(idx="k1", inv=[("prefix", "len(chain) == len(loop_order) + 2 + k1 and chain[0] == OtherNode('StartLoop') and "
                                             "all(chain[1 + t] == LoopNode(loop_order[t]) for t in range(len(loop_order))) and "
                                             "chain[len(loop_order) + 1] == OtherNode('Body') and "
                                             "all(chain[len(loop_order) + 2 + t] == EndLoopNode(loop_order[len(loop_order) - 1 - t]) "
                                             "    for t in range(k1))")]),
            2: dict(idx="k2", modifies=["self.graph.g_edges[]"],
                    inv=[("edges_so_far", "all((chain[t], chain[t + 1]) in self.graph.g_edges for t in range(k2))"),
                         ("monotone", "all(e in self.graph.g_edges for e in old(self.graph.g_edges))")]),
            3: dict(idx="k3", modifies=["metrics_chain[]"], inv=[]),
            4: dict(idx="k4", modifies=["metrics_chain[]"], inv=[]),
            5: dict(idx="k5", modifies=["self.graph.g_edges[]"],
                    inv=[("j", "0 <= j and j <= 1"),
                         ("collection_opened", "(OtherNode('StartLoop'), MetricsNode('Start')) in self.graph.g_edges and "
                                               "(MetricsNode('Start'), chain[1]) in self.graph.g_edges"),
                         ("chain_edges_kept", "all((chain[t], chain[t + 1]) in self.graph.g_edges for t in range(len(chain) - 1))"),
                         ("graphics_kept", "(OtherNode('Graphics'), OtherNode('StartLoop')) in self.graph.g_edges "
                                           "and (OtherNode('Output'), OtherNode('Graphics')) in self.graph.g_edges"),
                         ("monotone", "all(e in self.graph.g_edges for e in old(self.graph.g_edges))")]),
        },
    ),
})


# ---------------------------------------------------------------- HiFiber.__trans_nodes: bracket structure
OBJ_CLASSES["HiFiber"] = {
    "program": "Program", "metrics": "Optional[Metrics]", "graphics": "Graphics", "partitioner": "Partitioner",
    "header": "Header", "graph": "IterationGraph", "eqn": "TransEquation", "collector": "Collector",
    "trans_utils": "TransUtils", "fusion": "Fusion", "hardware": "Optional[Hardware]", "format": "Optional[Format]",
    "hifiber": "SBlock",
}
ASSUMPTIONS.append(
    "assumed frames of the translators called by HiFiber.__trans_nodes (Equation/Header/Partitioner/Collector/"
    "Graphics/Footer make_* methods, IterationGraph.peek/pop_concord): they do not touch the node list and may raise "
    "ValueError; what they emit is the subject of C07/C09, not of the bracket contract")


def _stmt(params, static=False):
    return dict(params=([] if static else ["self"]) + params, assumed=True, returns="Statement", modifies=[],
                raises={"ValueError": None})


def bracket_post(B, a, n, r):
    """r is just past the first EndLoop that closes the region starting at a, or the list ran out"""
    return ((r >= 1 and r <= n and pdepth(B, a + r) == pdepth(B, a) - 1
             and all(pdepth(B, k) >= pdepth(B, a) for k in range(a, a + r)))
            or (r == n and all(pdepth(B, k) >= pdepth(B, a) for k in range(a, a + n + 1))))


CONTRACTS.update({
    "SBlock.__init__": dict(params=["self", "stmts"], assumed=True, returns="None", modifies=[]),
    "SBlock.add": dict(params=["self", "stmt"], assumed=True, returns="None", modifies=[]),
    "SFor.__init__": dict(params=["self", "payload", "expr", "body"], assumed=True, returns="None", modifies=[]),
    "TransEquation.make_eager_inputs": _stmt(["rank", "tensors"]),
    "TransEquation.make_interval": _stmt(["rank"]),
    "TransEquation.make_iter_expr": dict(params=["self", "rank", "tensors"], assumed=True, returns="Expression",
                                         modifies=[], raises={"ValueError": None}),
    "TransEquation.make_payload": dict(params=["self", "rank", "tensors"], assumed=True, returns="Payload",
                                       modifies=[], raises={"ValueError": None}),
    "TransEquation.make_update": _stmt([]),
    "Header.make_tensor_from_fiber": _stmt(["tensor"], static=True),
    "Header.make_get_root": _stmt(["tensor"], static=True),
    "Header.make_get_payload": _stmt(["tensor", "ranks"]),
    "Header.make_output": _stmt([]),
    "Header.make_swizzle": _stmt(["tensor", "ranks", "type_"]),
    "Footer.make_footer": _stmt(["program", "graphics", "partitioner"], static=True),
    "Graphics.make_body": _stmt([]),
    "Graphics.make_header": _stmt([]),
    "Collector.make_body": _stmt([]),
    "Collector.dump": _stmt([]),
    "Collector.end": _stmt([]),
    "Collector.start": _stmt([]),
    "Collector.make_loop_footer": _stmt(["rank"]),
    "Collector.make_loop_header": _stmt(["rank"]),
    "Partitioner.partition": _stmt(["tensor", "ranks"]),
    "IterationGraph.peek_concord": dict(params=["self"], assumed=True, returns="Tuple[Optional[str], List[OpaqueTensor]]",
                                        modifies=[]),
    "IterationGraph.pop_concord": dict(params=["self"], assumed=True, returns="Tuple[Optional[str], List[OpaqueTensor]]",
                                       modifies=[]),
    "Program.get_equation": dict(params=["self"], returns="IrEquation", assumed=True, observer=True),
    "IrEquation.get_tensor": dict(params=["self", "name"], returns="OpaqueTensor", assumed=True, modifies=[],
                                  raises={"ValueError": None}),
    "OpaqueTensor.from_fiber": dict(params=["self"], returns="None", assumed=True, modifies=[]),

    "HiFiber.__trans_nodes": dict(
        aliases={"Equation": "TransEquation"},
        ghost_params={"B": "List[Node]", "a": "int"},
        requires=[("suffix_of_B", "a >= 0 and len(nodes) == len(B) - a and "
                                  "all(nodes[t] == B[a + t] for t in range(len(nodes)))")],
        raises={"ValueError": None},
        modifies=[],
        ghost_call_args={"HiFiber.__trans_nodes": {"B": "B", "a": "a + i + 1"}},
        ghost_after={"node = nodes[i]": "unfold_pdepth(B, a + i)\n"},
        ensures=[("bracket", "bracket_post(B, a, len(nodes), result[0])"),
                 ("range", "0 <= result[0] and result[0] <= len(nodes)")],
        loops={0: dict(inv=[
            ("bounds", "0 <= i and i <= len(nodes)"),
            ("level", "pdepth(B, a + i) == pdepth(B, a) or i == len(nodes)"),
            ("never_below", "all(pdepth(B, k) >= pdepth(B, a) for k in range(a, a + i + 1))")])},
    ),
})


# ---------------------------------------------------------------- native side (refuter / bounded stand-in)
def native_globals():
    import networkx as nx
    from teaal.ir import flow_nodes
    g = {n: getattr(flow_nodes, n) for n in NODE_CLASSES}
    g["E"] = lambda gr, a, b: gr.has_edge(a, b)
    g["Desc"] = lambda gr, a, b: b in nx.descendants(gr, a)

    def pdepth(B, k):
        d = 0
        for x in B[:k]:
            d += 1 if isinstance(x, flow_nodes.LoopNode) else (-1 if isinstance(x, flow_nodes.EndLoopNode) else 0)
        return d
    g["pdepth"] = pdepth
    return g


class _LO:
    def __init__(self, ranks):
        self.ranks = ranks

    def get_ranks(self):
        return self.ranks


class _Prog:
    def __init__(self, ranks):
        self.lo = _LO(ranks)

    def get_loop_order(self):
        return self.lo


def _small_graphs(seed=0, count=400):
    """random small DAGs around a loop chain, with a random topological order"""
    import random
    import networkx as nx
    from teaal.ir.flow_nodes import LoopNode, EndLoopNode, OtherNode, FiberNode, SwizzleNode, GetRootNode
    from teaal.ir.flow_graph import FlowGraph

    class G(nx.DiGraph):
        g_edges = property(lambda s: set(s.edges()))
    rnd = random.Random(seed)
    for _ in range(count):
        nr = rnd.randint(1, 3)
        ranks = ["R%d" % i for i in range(nr)]
        g = G()
        chain = [OtherNode("Graphics")] + [LoopNode(r) for r in ranks] + [OtherNode("Body")] + \
                [EndLoopNode(r) for r in reversed(ranks)] + [OtherNode("Footer")]
        for a, b in zip(chain, chain[1:]):
            g.add_edge(a, b)
        extra = [FiberNode("f%d" % i) for i in range(rnd.randint(0, 4))] + \
                [GetRootNode("T%d" % i, ["A"]) for i in range(rnd.randint(0, 2))]
        order = list(chain)
        for x in extra:
            # attach below a random chain node and (maybe) above a later one / another extra
            pos = rnd.randrange(len(order))
            g.add_edge(order[pos], x) if rnd.random() < 0.7 else g.add_node(x)
            later = [y for y in order[pos + 1:]]
            if later and rnd.random() < 0.6:
                g.add_edge(x, rnd.choice(later))
            order.insert(pos + 1, x)
        topo_orders = list(nx.topological_sort(g))
        # a random topological order: repeatedly pick a random source
        h = g.copy()
        srt = []
        while h.number_of_nodes():
            srcs = [n for n in h.nodes() if h.in_degree(n) == 0]
            n = rnd.choice(sorted(srcs, key=repr))
            srt.append(n)
            h.remove_node(n)
        fg = object.__new__(FlowGraph)
        fg.graph, fg.sorted, fg.program, fg.metrics = g, srt, _Prog(ranks), None
        yield fg, ()


def _gen_trans_prefix():
    return iter(())


GEN = {"FlowGraph.__hoist": _small_graphs}


# ---------------------------------------------------------------- graph construction, one builder (C10)
# FlowGraph.__build_project_interval: the eager-input node of a projected, partitioned rank depends on a fiber of
# EVERY tensor co-iterated at the outer level (its statement reads all of them), and the interval node sits between the
# outer loop / the eager inputs and the inner loop. Which rank of a tensor maps to the loop rank is sympy work
# (abstracted: the three assignments computing `tranks`, `trans`, `matches`); what is proved is that one edge per tensor
# is added, from a fiber node of THAT tensor, and the three interval edges.
OBJ_CLASSES["FlowGraph"]["iter_map"] = "Dict[str, List[str]]"


def fiber_edge_of(fg, tname, root, eager):
    """the level-1 fiber <tname>_<root>1 of tensor `tname` has an edge to the eager-input node"""
    return (FiberNode(tname.lower() + "_" + root + "1"), eager) in fg.graph.g_edges


CONTRACTS.update({
    "Program.get_partitioning": dict(params=["self"], returns="PartitioningF", assumed=True, observer=True),
    "PartitioningF.get_root_name": dict(params=["self", "rank"], returns="str", assumed=True, observer=True),
    "PartitioningF.get_final_rank_id": dict(params=["self", "init_ranks", "rank"], returns="str", assumed=True, observer=True),
    "FlowGraph.__build_project_interval": dict(
        # (that iter_map has an entry for the outer level is a fact about the history of calls - the outer loop was
        #  processed earlier; a missing key is an implicit KeyError, which no contract here constrains)
        modifies=["self.graph.g_edges[]"],
        raises={"AssertionError": None, "ValueError": None},
        local_kinds={"tranks": "List[Any]", "matches": "List[Any]", "trans": "Any", "g_fn": "List[str]"},
        abstract_stmts={
            "tranks = ": "sympy symbols of the tensor's ranks",
            "trans = ": "CoordMath.get_cond_expr (sympy): the index expression relating the loop rank to this tensor",
            "matches = ": "the tensor's rank that occurs in that expression (sympy atoms)",
        },
        ghost_entry="g_fn = []\n",
        ghost_after={"fiber_name = tname.lower() + '_' + trank_root + '1'": "g_fn = g_fn + [trank_root]\n"},
        ensures_env="exit", caller_ensures=["nothing_removed"],
        ensures=[
            ("interval_between_outer_loop_eager_inputs_and_inner_loop",
             "(LoopNode(rank1), IntervalNode(rank0)) in self.graph.g_edges and "
             "(eager_input_node, IntervalNode(rank0)) in self.graph.g_edges and "
             "(IntervalNode(rank0), LoopNode(rank0)) in self.graph.g_edges"),
            ("eager_inputs_of_the_outer_level", "eager_input_node == EagerInputNode(rank[:-1] + '1', self.iter_map[rank[:-1] + '1'])"),
            ("a_fiber_of_every_co_iterated_tensor_feeds_the_eager_inputs",
             "len(g_fn) == len(self.iter_map[rank1]) and "
             "all(fiber_edge_of(self, self.iter_map[rank1][j], g_fn[j], eager_input_node) for j in range(len(self.iter_map[rank1])))"),
            ("nothing_removed", "all(e in self.graph.g_edges for e in old(self.graph.g_edges))"),
        ],
        loops={0: dict(idx="kt", modifies=["self.graph.g_edges[]"], ghost_vars=["g_fn"],
                       inv=[("so_far", "len(g_fn) == kt and all(fiber_edge_of(self, self.iter_map[rank1][j], g_fn[j], eager_input_node) for j in range(kt))"),
                            ("monotone", "all(e in self.graph.g_edges for e in old(self.graph.g_edges))")])},
    ),
})


# ---------------------------------------------------------------- graph construction: dynamic (occupancy) partitioning of one rank
# FlowGraph.__build_dyn_part, split case (one rank): for the rank and each of its intermediates (K, K1I, ...), in order:
#   RankNode(tensor, src) -> PartNode(tensor, (src,)) -> RankNode(tensor, dst) for every level dst it is split into, and -
#   unless the tensor is itself the leader of THAT level - an edge from the leader's fiber at the upper level,
#   FiberNode(<leader of src's split>_<dsts[1]>), to the PartNode: a follower is split after its leader's fiber exists.
# The leader is looked up per source rank (Partitioning.get_leader(src, lowest level)), which is what the statement says.
def dyn_srcs(part, rank):
    return [rank] + part.get_intermediates(rank)


def split_edges(fg, root, part, t):
    """the edges the split of the one-rank tuple t = (src,) contributes"""
    return ((RankNode(root, t[0]), PartNode(root, t)) in fg.graph.g_edges
            and all((PartNode(root, t), RankNode(root, part.partition_names(t, False)[d])) in fg.graph.g_edges
                    for d in range(len(part.partition_names(t, False))))
            and implies(root != part.get_leader(t[0], part.partition_names(t, False)[len(part.partition_names(t, False)) - 1]),
                        (FiberNode(part.get_leader(t[0], part.partition_names(t, False)[len(part.partition_names(t, False)) - 1]).lower()
                                   + "_" + part.partition_names(t, False)[1].lower()),
                         PartNode(root, t)) in fg.graph.g_edges))


CONTRACTS.update({
    "PartitioningF.get_intermediates": dict(params=["self", "rank"], returns="List[str]", assumed=True, observer=True),
    "PartitioningF.partition_names": dict(params=["self", "ranks", "all_"], returns="List[str]", assumed=True, observer=True,
                                          ensures=["len(result) >= 2"]),
    "PartitioningF.get_leader": dict(params=["self", "src", "dst"], returns="str", assumed=True, observer=True),
    "TensorF.root_name": dict(params=["self"], returns="str", assumed=True, observer=True),
    "Program.apply_partition_swizzling": dict(params=["self", "tensor"], assumed=True, modifies=[], returns="None"),
    "FlowGraph.__build_dyn_part": dict(
        kinds={"tensor": "TensorF", "partitioning": "Tuple[str, ...]", "flatten_info": "Dict[str, List[Any]]"},
        requires=["tensor.root_name() in flatten_info"],
        modifies=["self.graph.g_edges[]", "flatten_info[tensor.root_name()][]"],
        local_kinds={"src_ranks": "List[Tuple[str, ...]]", "leader": "str", "lead_name": "str"},
        # g_e1: the edge set at the start of the current split (edges only grow from there)
        ghost_after={"part_node = PartNode(root, srcs)": "g_e1 = self.graph.g_edges.copy()\n"},
        ensures_env="exit",
        ensures=[
            ("one_split_per_rank_and_intermediate",
             "implies(len(partitioning) == 1, len(src_ranks) == len(dyn_srcs(part, partitioning[0])) and "
             "all(len(src_ranks[i]) == 1 and src_ranks[i][0] == dyn_srcs(part, partitioning[0])[i] for i in range(len(src_ranks))))"),
            ("every_split_is_wired_with_the_leader_of_its_own_level",
             "implies(len(partitioning) == 1, all(split_edges(self, root, part, src_ranks[i]) for i in range(len(src_ranks))))"),
            ("nothing_removed", "all(e in self.graph.g_edges for e in old(self.graph.g_edges))"),
        ],
        loops={
            0: dict(idx="k0", modifies=["self.graph.g_edges[]"],
                    inv=[("monotone0", "all(e in self.graph.g_edges for e in old(self.graph.g_edges))")]),
            1: dict(idx="ks", modifies=["self.graph.g_edges[]"],
                    inv=[("flatten_case", "implies(len(partitioning) != 1, len(src_ranks) == 1 and src_ranks[0] == partitioning)"),
                         ("srcs", "implies(len(partitioning) == 1, len(src_ranks) == len(dyn_srcs(part, partitioning[0])) and "
                                  "all(len(src_ranks[i]) == 1 and src_ranks[i][0] == dyn_srcs(part, partitioning[0])[i] "
                                  "    for i in range(len(src_ranks))))"),
                         ("wired_so_far", "implies(len(partitioning) == 1, all(split_edges(self, root, part, src_ranks[i]) for i in range(ks)))"),
                         ("monotone", "all(e in self.graph.g_edges for e in old(self.graph.g_edges))")]),
            2: dict(idx="k2", modifies=["self.graph.g_edges[]"],
                    inv=[("grow", "all(e in self.graph.g_edges for e in g_e1)"),
                         ("src_edges", "all((RankNode(root, srcs[j]), part_node) in self.graph.g_edges for j in range(k2))")]),
            3: dict(idx="k3", modifies=["self.graph.g_edges[]"],
                    inv=[("grow", "all(e in self.graph.g_edges for e in g_e1)"),
                         ("src_edge", "(RankNode(root, srcs[0]), part_node) in self.graph.g_edges"),
                         ("leader_edge", "implies(len(srcs) == 1 and root != part.get_leader(srcs[0], dsts[len(dsts) - 1]), "
                                         "(FiberNode(part.get_leader(srcs[0], dsts[len(dsts) - 1]).lower() + '_' + dsts[1].lower()), part_node) in self.graph.g_edges)"),
                         ("dst_edges", "all((part_node, RankNode(root, dsts[d])) in self.graph.g_edges for d in range(k3))")]),
        },
    ),
})


# ---------------------------------------------------------------- graph construction: output chain, dynamic partition hook-up
CONTRACTS.update({
    "IrEquation.get_output": dict(params=["self"], returns="TensorF", assumed=True, observer=True),
    "Program.apply_all_partitioning": dict(params=["self", "tensor"], assumed=True, modifies=[], returns="None"),
    "Program.apply_partitioning": dict(params=["self", "tensor", "ranks"], assumed=True, modifies=[], returns="None"),
    "LoopOrder.apply": dict(params=["self", "tensor"], assumed=True, modifies=[], returns="None"),
    "TensorF.fiber_name": dict(params=["self"], returns="str", assumed=True, pure=True),
    "TensorF.get_ranks": dict(params=["self"], returns="List[str]", assumed=True, pure=True, fresh_result=True),
    "TensorF.from_fiber": dict(params=["self"], returns="None", assumed=True, modifies=[]),
    # swizzle to the loop order, take the root, name its fiber: TensorNode -> SwizzleNode -> GetRootNode -> FiberNode(first
    # fiber), every current rank of the tensor before the swizzle, and (static case) the swizzle before the graphics
    "FlowGraph.__build_swizzle_root_fiber": dict(
        kinds={"tensor": "TensorF"},
        modifies=["self.graph.g_edges[]"],
        local_kinds={"swizzle_node": "Node", "get_root_node": "Node", "fiber_node": "Node", "tensor_node": "Node"},
        ensures_env="exit", caller_ensures=["nothing_removed"],
        ensures=[
            ("swizzle_root_fiber_chain",
             "(tensor_node, swizzle_node) in self.graph.g_edges and (swizzle_node, get_root_node) in self.graph.g_edges and "
             "(get_root_node, fiber_node) in self.graph.g_edges and tensor_node == TensorNode(root) and root == tensor.root_name() and "
             "isinstance(swizzle_node, SwizzleNode) and cast(SwizzleNode, swizzle_node).tensor == root and "
             "cast(SwizzleNode, swizzle_node).type_ == 'loop-order' and "
             "isinstance(get_root_node, GetRootNode) and cast(GetRootNode, get_root_node).tensor == root and "
             "isinstance(fiber_node, FiberNode)"),
            ("static_swizzle_before_graphics", "implies(static, (swizzle_node, OtherNode('Graphics')) in self.graph.g_edges)"),
            ("nothing_removed", "all(e in self.graph.g_edges for e in old(self.graph.g_edges))"),
        ],
        loops={
            0: dict(idx="k0", enum="cur", modifies=["self.graph.g_edges[]"],
                    inv=[("mono", "all(e in self.graph.g_edges for e in old(self.graph.g_edges))"),
                         ("chain", "(tensor_node, swizzle_node) in self.graph.g_edges and (swizzle_node, get_root_node) in self.graph.g_edges "
                                   "and (get_root_node, fiber_node) in self.graph.g_edges"),
                         ("ranks_before_swizzle", "all((RankNode(root, cur[j]), swizzle_node) in self.graph.g_edges for j in range(k0))")]),
            1: dict(idx="k1", modifies=["self.graph.g_edges[]"],
                    inv=[("mono1", "all(e in self.graph.g_edges for e in old(self.graph.g_edges))"),
                         ("chain1", "(tensor_node, swizzle_node) in self.graph.g_edges and (swizzle_node, get_root_node) in self.graph.g_edges "
                                    "and (get_root_node, fiber_node) in self.graph.g_edges"),
                         ("static1", "implies(static, (swizzle_node, OtherNode('Graphics')) in self.graph.g_edges)")]),
        },
    ),
    # the output: Output -> TensorNode -> GetRootNode -> its first fiber
    "FlowGraph.__build_output": dict(
        modifies=["self.graph.g_edges[]"],
        ensures_env="exit",
        ensures=[("output_chain",
                  "(OtherNode('Output'), TensorNode(root)) in self.graph.g_edges and "
                  "(TensorNode(root), get_root_node) in self.graph.g_edges and "
                  "isinstance(get_root_node, GetRootNode) and cast(GetRootNode, get_root_node).tensor == root and "
                  "root == self.program.get_equation().get_output().root_name()"),
                 ("nothing_removed", "all(e in self.graph.g_edges for e in old(self.graph.g_edges))")],
    ),
    # a dynamically partitioned tensor is re-wrapped from the fiber it had on entry, then partitioned:
    # FiberNode(<fiber on entry>) -> FromFiberNode(tensor, rank) -> PartNode(tensor, (rank,))
    "FlowGraph.__connect_dyn_part": dict(
        kinds={"tensor": "TensorF", "flatten_info": "Dict[str, List[Any]]"},
        requires=["tensor.root_name() in flatten_info"],
        modifies=["self.graph.g_edges[]", "flatten_info[tensor.root_name()][]"],
        abstract_loops={0: dict(modifies=["flatten_info[tensor.root_name()][]"],
                                why="applies the flattenings that became available (tensor state only; no edge is added)")},
        ensures_env="exit", caller_ensures=["nothing_removed"],
        ensures=[("rewrap_then_partition",
                  "(fiber_node, FromFiberNode(root, rank)) in self.graph.g_edges and "
                  "(FromFiberNode(root, rank), PartNode(root, (rank,))) in self.graph.g_edges and "
                  "isinstance(fiber_node, FiberNode) and root == tensor.root_name()"),
                 ("nothing_removed", "all(e in self.graph.g_edges for e in old(self.graph.g_edges))")],
    ),
})


# ---------------------------------------------------------------- graph construction: static partitioning of one rank / flattening
OBJ_CLASSES["FlowGraph"]["metrics"] = "Optional[MetricsF]"
CONTRACTS.update({
    "MetricsF.get_merger_init_ranks": dict(params=["self", "tensor", "ranks"], returns="Optional[List[str]]", assumed=True, observer=True),
    "FlowGraph.__build_static_part": dict(
        kinds={"tensor": "TensorF", "partitioning": "Tuple[str, ...]"},
        requires=["len(partitioning) >= 1"],
        modifies=["self.graph.g_edges[]"],
        local_kinds={"swizzle_node": "Node"},
        ensures_env="exit",
        ensures=[
            ("split_or_flatten_feeds_the_partition_node",
             "part_node == PartNode(root, partitioning) and root == tensor.root_name() and "
             "implies(len(partitioning) == 1, (RankNode(root, partitioning[0]), part_node) in self.graph.g_edges) and "
             "implies(len(partitioning) > 1, (swizzle_node, part_node) in self.graph.g_edges and isinstance(swizzle_node, SwizzleNode) "
             "        and cast(SwizzleNode, swizzle_node).tensor == root and cast(SwizzleNode, swizzle_node).type_ == 'partitioning')"),
            ("every_resulting_rank_comes_after_the_partition_node",
             "all((part_node, RankNode(root, part.partition_names(partitioning, False)[d])) in self.graph.g_edges "
             "    for d in range(len(part.partition_names(partitioning, False))))"),
            ("graphics_after_static_partitioning", "(part_node, OtherNode('Graphics')) in self.graph.g_edges"),
            ("nothing_removed", "all(e in self.graph.g_edges for e in old(self.graph.g_edges))"),
        ],
        loops={
            0: dict(idx="k0", modifies=["self.graph.g_edges[]"],
                    inv=[("mono0", "all(e in self.graph.g_edges for e in old(self.graph.g_edges))")]),
            1: dict(idx="k1", modifies=["self.graph.g_edges[]"],
                    inv=[("mono1", "all(e in self.graph.g_edges for e in old(self.graph.g_edges))"),
                         ("swizzle_edge_kept", "(swizzle_node, part_node) in self.graph.g_edges")]),
            2: dict(idx="k2", modifies=["self.graph.g_edges[]"],
                    inv=[("mono2", "all(e in self.graph.g_edges for e in old(self.graph.g_edges))"),
                         ("feed", "implies(len(partitioning) == 1, (RankNode(root, partitioning[0]), part_node) in self.graph.g_edges) and "
                                  "implies(len(partitioning) > 1, (swizzle_node, part_node) in self.graph.g_edges and isinstance(swizzle_node, SwizzleNode) "
                                  "and cast(SwizzleNode, swizzle_node).tensor == root and cast(SwizzleNode, swizzle_node).type_ == 'partitioning')"),
                         ("res", "all((part_node, RankNode(root, part.partition_names(partitioning, False)[d])) in self.graph.g_edges for d in range(k2))")]),
        },
    ),
})


# ---------------------------------------------------------------- graph construction: the fibers around one loop
# FlowGraph.__build_fiber_nodes, for the loop rank r = peek_concord()[0] and the tensors co-iterated there:
#   FiberNode(fiber of t before the loop) -> LoopNode(r) for every such t, LoopNode(r) -> FiberNode(fiber of t inside the
#   loop) for every tensor pop_concord() hands back; for every discordant access (ranks, t):
#   FiberNode(fiber of t) -> GetPayloadNode(t, ranks), and GetPayloadNode(t, ranks) -> FiberNode(fiber of t afterwards).
# Fiber names are whatever Tensor.fiber_name() says at that moment (tensor state is advanced by IterationGraph: assumed);
# the nodes are captured in ghost lists, so the statement is about WHICH edges exist, not about the spelling.
# The first loop (dynamic partitionings hooked up through __connect_dyn_part, which is under its own contract) is
# abstracted: the frame language cannot say "the lists stored in flatten_info", so its effect is modelled as an arbitrary
# change of the edge set only (flatten_info is not read again in this function).
_MONO = "all(e in self.graph.g_edges for e in old(self.graph.g_edges))"
_FB = "all((g_in[j], LoopNode(g_r)) in self.graph.g_edges and isinstance(g_in[j], FiberNode) for j in range(len(g_in)))"
_PF = ("len(g_pf) == len(g_pn) and all((g_pf[j], g_pn[j]) in self.graph.g_edges and isinstance(g_pf[j], FiberNode) and "
       "isinstance(g_pn[j], GetPayloadNode) for j in range(len(g_pn)))")
_QF = ("len(g_qf) == len(g_qn) and all((g_qn[j], g_qf[j]) in self.graph.g_edges and isinstance(g_qf[j], FiberNode) and "
       "isinstance(g_qn[j], GetPayloadNode) for j in range(len(g_qn)))")
_LR = ("len(g_pt) == len(g_pn) and len(g_pr) == len(g_pn) and "
       "all(all((LoopNode(part.get_final_rank_id(g_pt[j].get_init_ranks(), g_pr[j][i])), g_pn[j]) in self.graph.g_edges "
       "        for i in range(len(g_pr[j]))) for j in range(%s))")
_LN = "all((LoopNode(g_r), g_out[j]) in self.graph.g_edges and isinstance(g_out[j], FiberNode) for j in range(len(g_out)))"
CONTRACTS.update({
    "IrEquation.get_tensors": dict(params=["self"], returns="List[TensorF]", assumed=True, observer=True),
    "TensorF.peek": dict(params=["self"], returns="Optional[str]", assumed=True, pure=True),
    "TensorF.peek_clean": dict(params=["self"], returns="Optional[str]", assumed=True, observer=True),
    "TensorF.get_is_output": dict(params=["self"], returns="bool", assumed=True, pure=True),
    "TensorF.get_init_ranks": dict(params=["self"], returns="List[str]", assumed=True, observer=True),
    "PartitioningF.get_dyn_parts": dict(params=["self"], returns="Set[Any]", assumed=True, observer=True),
    "PartitioningF.split_rank_name": dict(params=["self", "rank"], returns="Tuple[str, str]", assumed=True, observer=True),
    "IterationGraphF.peek_concord": dict(params=["self"], returns="Tuple[Optional[str], List[TensorF]]", assumed=True, pure=True),
    "IterationGraphF.pop_concord": dict(params=["self"], returns="Tuple[Optional[str], List[TensorF]]", assumed=True, modifies=[]),
    "IterationGraphF.peek_discord": dict(params=["self"], returns="List[Tuple[Tuple[str, ...], TensorF]]", assumed=True, pure=True),
    "IterationGraphF.pop_discord": dict(params=["self"], returns="List[Tuple[Tuple[str, ...], TensorF]]", assumed=True, modifies=[]),
    "FlowGraph.__build_fiber_nodes": dict(
        kinds={"iter_graph": "IterationGraphF", "flatten_info": "Dict[str, List[Any]]"},
        # (the tensors' names are keys of flatten_info, and the list of tensors is none of the lists flatten_info holds: facts
        #  about the caller, FlowGraph.__build, which is not under contract - listed as unchecked preconditions)
        requires=["all(t.root_name() in flatten_info for t in self.program.get_equation().get_tensors())",
                  "all(not same_ref(flatten_info[k], self.program.get_equation().get_tensors()) for k in flatten_info)"],
        modifies=["self.graph.g_edges[]", "self.iter_map[]", "flatten_info[*][]"],
        raises={"ValueError": None, "AssertionError": None},
        local_kinds={"self.iter_map[rank] =": "List[str]", "g_pr": "List[Tuple[str, ...]]", "g_pt": "List[TensorF]", "g_t1": "List[TensorF]", "g_t2": "List[TensorF]"},
        abstract_stmts={"self.iter_map[rank] = ": "the names of the non-output tensors co-iterated at this rank (filtered comprehension)"},
        ghost_entry="g_in = []\ng_out = []\ng_r = ''\ng_pf = []\ng_pn = []\ng_qf = []\ng_qn = []\ng_pt = []\ng_pr = []\ng_t1 = []\ng_t2 = []\n",
        ghost_after={
            "if rank is None": "g_r = rank\n",
            # the lists the iteration graph hands out for this loop rank: every element must get its edge
            "rank, tensors = iter_graph.peek_concord()": "g_t1 = tensors\n",
            "_, tensors = iter_graph.pop_concord()": "g_t2 = tensors\n",
            "fiber_node = FiberNode(tensor.fiber_name())": "g_in = g_in + [fiber_node]\n",
            "new_fnode = FiberNode(tensor.fiber_name())": "g_out = g_out + [new_fnode]\n",
            # (_arg0 / _arg1: the values the call receives; Tensor.fiber_name() is modelled as state-dependent, so it cannot be
            #  re-read in ghost code)
            "self.graph.add_edge(FiberNode(tensor.fiber_name()), get_payload_node)":
                "g_pf = g_pf + [_arg0]\ng_pn = g_pn + [_arg1]\ng_pt = g_pt + [tensor]\ng_pr = g_pr + [ranks]\n",
            "self.graph.add_edge(get_payload_node, FiberNode(tensor.fiber_name()))":
                "g_qn = g_qn + [_arg0]\ng_qf = g_qf + [_arg1]\n",
        },
        ensures_env="exit", caller_ensures=["nothing_removed"],
        ensures=[("fiber_before_loop", _FB + " and len(g_in) == len(g_t1)"), ("loop_before_new_fiber", _LN + " and len(g_out) == len(g_t2)"),
                 ("fiber_before_its_discordant_payload_access", _PF + " and len(g_pn) == len(d3)"),
                 ("every_rank_of_a_discordant_access_has_its_loop_before_the_payload_access", _LR % "len(g_pn)"),
                 ("payload_access_before_the_fiber_it_yields", _QF + " and len(g_qn) == len(d5)"),
                 ("nothing_removed", _MONO)],
        loops={
            0: dict(idx="k0", modifies=["self.graph.g_edges[]", "flatten_info[*][]"], inv=[("mono", _MONO)]),
            1: dict(idx="k1", enum="c1", modifies=["self.graph.g_edges[]"], ghost_vars=["g_in"],
                    inv=[("mono", _MONO), ("rank1", "g_r == rank and len(g_in) == k1 and same_ref(c1, g_t1)"), ("fiber_before_loop", _FB)]),
            2: dict(idx="k2", enum="c2", modifies=["self.graph.g_edges[]"], ghost_vars=["g_out"],
                    inv=[("mono", _MONO), ("rank2", "g_r == rank and len(g_out) == k2 and len(g_in) == len(g_t1) and same_ref(c2, g_t2)"), ("fiber_before_loop", _FB), ("loop_before_new_fiber", _LN)]),
            3: dict(idx="k3", modifies=["self.graph.g_edges[]"], ghost_vars=["g_pf", "g_pn", "g_pt", "g_pr"],
                    enum="d3",
                    inv=[("mono", _MONO), ("counts", "len(g_in) == len(g_t1) and len(g_out) == len(g_t2)"), ("fiber_before_loop", _FB), ("loop_before_new_fiber", _LN), ("payload3", _PF + " and len(g_pn) == k3"), ("ranks3", _LR % "k3")]),
            4: dict(idx="k4", modifies=["self.graph.g_edges[]"],
                    inv=[("mono", _MONO), ("counts", "len(g_in) == len(g_t1) and len(g_out) == len(g_t2)"), ("fiber_before_loop", _FB), ("loop_before_new_fiber", _LN), ("p4len", "len(g_pf) == len(g_pn) and len(g_pn) == k3 + 1 and same_ref(g_pt[k3], tensor) and g_pr[k3] == ranks and g_pn[k3] == get_payload_node"),
                         ("ranks4", _LR % "k3"),
                         ("ranks4cur", "all((LoopNode(part.get_final_rank_id(tensor.get_init_ranks(), ranks[i])), get_payload_node) in self.graph.g_edges for i in range(k4))"),
                         ("p4edge", "all((g_pf[j], g_pn[j]) in self.graph.g_edges for j in range(len(g_pn)))"),
                         ("p4ty", "all(isinstance(g_pf[j], FiberNode) and isinstance(g_pn[j], GetPayloadNode) for j in range(len(g_pn)))")]),
            5: dict(idx="k5", enum="d5", modifies=["self.graph.g_edges[]"], ghost_vars=["g_qf", "g_qn"],
                    inv=[("mono", _MONO), ("counts", "len(g_in) == len(g_t1) and len(g_out) == len(g_t2)"), ("fiber_before_loop", _FB), ("loop_before_new_fiber", _LN), ("payload5", _PF + " and len(g_pn) == len(d3)"), ("ranks5", _LR % "len(g_pn)"), ("yield5", _QF + " and len(g_qn) == k5")]),
        },
    ),
})
