"""Sidecar contracts for teaal/ir/flow_graph.py (FlowGraph.__hoist/__sort/__build_loop_nest) and
teaal/trans/hifiber.py (HiFiber.__trans_nodes) - property C10."""

MODULES = {"FlowGraph": "teaal/ir/flow_graph.py", "HiFiber": "teaal/trans/hifiber.py"}

OBJ_CLASSES = {
    "FlowGraph": {"program": "Program", "metrics": "Optional[Metrics]", "graph": "DiGraph",
                  "sorted": "List[Node]", "iter_map": "Dict[str, List[str]]"},
}
NODE_CLASSES = ["EagerInputNode", "EndLoopNode", "FiberNode", "FromFiberNode", "GetPayloadNode", "GetRootNode",
                "IntervalNode", "LoopNode", "MetricsFooterNode", "MetricsHeaderNode", "MetricsNode", "OtherNode",
                "PartNode", "RankNode", "SwizzleNode", "TensorNode"]
BASES = {c: ["Node"] for c in NODE_CLASSES}
BASES["Node"] = []
_ONE = lambda f: {"fields": [(f, "str")], "getters": {"get_" + f.rstrip("_"): f}}      # noqa: E731
VAL_CLASSES = {
    "Node": {"fields": [], "getters": {}},
    "LoopNode": _ONE("rank"), "EndLoopNode": _ONE("rank"), "IntervalNode": _ONE("rank"),
    "MetricsFooterNode": _ONE("rank"), "MetricsHeaderNode": _ONE("rank"),
    "MetricsNode": {"fields": [("type_", "str")], "getters": {"get_type": "type_"}},
    "OtherNode": {"fields": [("type_", "str")], "getters": {"get_type": "type_"}},
    "FiberNode": _ONE("fiber"), "TensorNode": _ONE("tensor"),
    "EagerInputNode": {"fields": [("rank", "str"), ("tensors", "List[str]")],
                       "getters": {"get_rank": "rank", "get_tensors": "tensors"}},
    "FromFiberNode": {"fields": [("tensor", "str"), ("rank", "str")], "getters": {"get_tensor": "tensor", "get_rank": "rank"}},
    "RankNode": {"fields": [("tensor", "str"), ("rank", "str")], "getters": {"get_tensor": "tensor", "get_rank": "rank"}},
    "GetPayloadNode": {"fields": [("tensor", "str"), ("ranks", "List[str]")], "getters": {"get_tensor": "tensor", "get_ranks": "ranks"}},
    "GetRootNode": {"fields": [("tensor", "str"), ("ranks", "List[str]")], "getters": {"get_tensor": "tensor", "get_ranks": "ranks"}},
    "PartNode": {"fields": [("tensor", "str"), ("ranks", "Any")], "getters": {"get_tensor": "tensor", "get_ranks": "ranks"}},
    "SwizzleNode": {"fields": [("tensor", "str"), ("ranks", "List[str]"), ("type_", "str")],
                    "getters": {"get_tensor": "tensor", "get_ranks": "ranks", "get_type": "type_"}},
}

UF = {"E": (["V", "V", "V"], "Bool"), "Desc": (["V", "V", "V"], "Bool")}
AXIOMS = [
    # networkx.descendants(G, n) = least set containing the successors of n and closed under successor;
    # the two consequences used by the proof:
    "forall(lambda g, a, b: implies(E(g, a, b), Desc(g, a, b)))",
    "forall(lambda g, a, b, c: implies(Desc(g, a, b) and E(g, b, c), Desc(g, a, c)))",
]
ASSUMPTIONS = [
    "assumed networkx contracts: E(G,a,b) is the edge relation of the DiGraph at the time of the call; "
    "nx.descendants(G,n) = {y | Desc(G,n,y)} with E <= Desc and Desc;E <= Desc; "
    "nx.topological_sort(G) enumerates every node once with no edge from a later to an earlier position",
    "flow-graph nodes are compared structurally (Node.__eq__ over class and key); the graph and the sorted list "
    "hold the same node values",
    "the graph is not modified by __hoist (it only reads self.graph)",
]


def topo(g, xs):
    """no edge from a later to an earlier position"""
    return all(not E(g, xs[b], xs[a]) for b in range(len(xs)) for a in range(b))


def loop_ranks(fg):
    return fg.program.get_loop_order().get_ranks()


_PERM = ("len(g_dst) == g_n and "
         "all(0 <= g_dst[q] and g_dst[q] < g_n and self.sorted[g_dst[q]] == old(self.sorted)[q] for q in range(g_n)) and "
         "all(g_dst[q1] != g_dst[q2] for q2 in range(g_n) for q1 in range(q2))")

CONTRACTS = {
    "Program.get_loop_order": dict(params=["self"], returns="LoopOrder", assumed=True, observer=True),
    "LoopOrder.get_ranks": dict(params=["self"], returns="List[str]", assumed=True, observer=True),
    "nx.descendants": dict(
        params=["g", "n"], returns="Set[Node]", assumed=True, fresh_result=True, pure=True,
        ensures=[("closure", "forall(lambda y: (y in result) == Desc(g, n, y))")]),

    "FlowGraph.__hoist": dict(
        requires=[("topological", "topo(self.graph, self.sorted)"),
                  ("loop_nodes_present", "all(LoopNode(r) in self.sorted for r in loop_ranks(self))")],
        modifies=["self.sorted[]"],
        ghost_entry="g_n = len(self.sorted)\ng_dst = [q for q in range(len(self.sorted))]\n",
        ghost_after={
            "self.sorted.insert(loop, node)":
                "g_x = g_dst.index(i)\n"
                "g_dst = [(loop if q == g_x else (g_dst[q] + 1 if loop <= g_dst[q] and g_dst[q] < i else g_dst[q])) "
                "for q in range(g_n)]\n",
        },
        ensures_env="exit",
        ensures=[("topological", "topo(self.graph, self.sorted)"),
                 ("same_list", "same_ref(self.sorted, old(self.sorted)) and len(self.sorted) == old(len(self.sorted))"),
                 ("permutation", _PERM)],
        loops={
            0: dict(idx="ko", modifies=["self.sorted[]"], ghost_vars=["g_dst"],
                    inv=[("topo", "topo(self.graph, self.sorted)"),
                         ("len", "len(self.sorted) == g_n and 0 <= end and end <= g_n"),
                         ("perm", _PERM)]),
            1: dict(modifies=["self.sorted[]"], ghost_vars=["g_dst"],
                    inv=[("bounds", "0 <= loop and loop < i and end <= g_n and len(self.sorted) == g_n"),
                         ("loop_at", "self.sorted[loop] == LoopNode(rank)"),
                         ("between_are_descendants",
                          "all(Desc(self.graph, LoopNode(rank), self.sorted[j]) for j in range(loop + 1, i))"),
                         ("topo", "topo(self.graph, self.sorted)"),
                         ("perm", _PERM)]),
        },
    ),
}
