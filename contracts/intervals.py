"""Sidecar contracts for C06 (def/use summaries of two translator functions): the interval of a projected, partitioned
rank. Equation.make_eager_inputs(rank1, ...) BINDS inputs_<rank1>; Equation.make_interval(rank0) READS only
<root>1_pos, <root>1, inputs_<root>1 and the extent <ROOT>, and BINDS <rank0>_start and <rank0>_end on every path
(both branches of both conditionals assign). The spelling agreement between the binder and the reader of
inputs_<root>1 is part of the statement. (Closedness of whole programs stays bounded.)"""
from contracts.traces import VAL_CLASSES as _VC, BASES as _B

MODULES = {"TransEquation": "teaal/trans/equation.py", "SBlock": "teaal/hifiber/stmt.py"}
CLASS_ALIAS = {"TransEquation": "Equation"}
VAL_CLASSES = dict(_VC)
VAL_CLASSES.update({
    "OEqEq": {"fields": [], "getters": {}}, "OLt": {"fields": [], "getters": {}},
})
BASES = dict(_B)
BASES.update({"OEqEq": ["Operator"], "OLt": ["Operator"]})
OBJ_CLASSES = {"TransEquation": {"program": "ProgramI", "metrics": "Optional[MetricsI]"},
               "SBlock": {"stmts": "List[Any]"}}
ASSUMPTIONS = [
    "assumed observers: Program.get_partitioning().split_rank_name(rank) -> (root, suffix); "
    "Program.get_equation().get_tensor / get_iter; Equation.__make_input_iter_expr (the co-iteration expression of the inputs: "
    "its own reads are not part of this summary)",
]
_OBS = dict(assumed=True, observer=True)


def assigns(s, name):
    return isinstance(s, SAssign) and cast(SAssign, s).assn == AVar(name)


def is_len_of(e, var):
    """len(<var>)"""
    return (isinstance(e, EFunc) and cast(EFunc, e).name == 'len' and len(cast(EFunc, e).args) == 1
            and cast(EFunc, e).args[0] == AJust(EVar(var)))


def is_coords_of(e, var):
    """<var>.getCoords()"""
    return (isinstance(e, EMethod) and cast(EMethod, e).obj == EVar(var) and cast(EMethod, e).name == 'getCoords'
            and len(cast(EMethod, e).args) == 0)


def split_of(eq, rank):
    return eq.program.get_partitioning().split_rank_name(rank)


CONTRACTS = {
    "ProgramI.get_partitioning": dict(params=["self"], returns="PartitioningI", **_OBS),
    "PartitioningI.split_rank_name": dict(params=["self", "rank"], returns="Tuple[str, str]", **_OBS),
    "ProgramI.get_equation": dict(params=["self"], returns="IrEquationI", **_OBS),
    "IrEquationI.get_tensor": dict(params=["self", "name"], returns="TensorI", **_OBS),
    "IrEquationI.get_iter": dict(params=["self", "tensors"], returns="Tuple[Any, List[TensorI]]", assumed=True, pure=True),
    "TransEquation.__make_input_iter_expr": dict(params=["self", "rank", "tensors"], returns="Expression", assumed=True,
                                                 modifies=[], raises={"ValueError": None}),
    "SBlock.__init__": dict(kinds={"stmts": "List[Any]"}, modifies=["self.stmts"], ensures=["same_ref(self.stmts, stmts)"]),
    "SBlock.add": dict(
        kinds={"stmt": "Any"},
        requires=["not same_ref(self, stmt)"],
        modifies=["self.stmts[]"],
        ensures=[("appends_or_splices",
                  "(isinstance(stmt, SBlock) and self.stmts == old(self.stmts) + old(cast(SBlock, stmt).stmts)) or "
                  "(not isinstance(stmt, SBlock) and self.stmts == old(self.stmts) + [stmt])")],
    ),

    "TransEquation.make_eager_inputs": dict(
        modifies=[],
        raises={"ValueError": None},
        ensures=[("binds_inputs_of_the_rank",
                  "assigns(result, 'inputs_' + rank.lower()) and isinstance(cast(SAssign, result).expr, EMethod) and "
                  "cast(EMethod, cast(SAssign, result).expr).obj == EVar('Fiber') and "
                  "cast(EMethod, cast(SAssign, result).expr).name == 'fromLazy'")],
    ),
    "TransEquation.make_interval": dict(
        modifies=[],
        raises={"ValueError": "split_of(self, rank)[1] != '0'"},
        ensures=[
            ("two_conditionals", "len(result.stmts) == 2 and isinstance(result.stmts[0], SIf) and isinstance(result.stmts[1], SIf)"),
            ("start_bound_on_both_branches",
             "assigns(cast(SIf, result.stmts[0]).if_[1], rank.lower() + '_start') and "
             "assigns(cast(SIf, result.stmts[0]).else_, rank.lower() + '_start') and len(cast(SIf, result.stmts[0]).elifs) == 0"),
            ("end_bound_on_both_branches",
             "assigns(cast(SIf, result.stmts[1]).if_[1], rank.lower() + '_end') and "
             "assigns(cast(SIf, result.stmts[1]).else_, rank.lower() + '_end') and len(cast(SIf, result.stmts[1]).elifs) == 0"),
            ("reads_only_the_outer_level_its_position_its_inputs_and_the_extent",
             "cast(SIf, result.stmts[0]).if_[0] == EBinOp(EVar(split_of(self, rank)[0].lower() + '1_pos'), OEqEq(), EInt(0)) and "
             "cast(SAssign, cast(SIf, result.stmts[0]).if_[1]).expr == EInt(0) and "
             "cast(SAssign, cast(SIf, result.stmts[0]).else_).expr == EVar(split_of(self, rank)[0].lower() + '1') and "
             "isinstance(cast(SIf, result.stmts[1]).if_[0], EBinOp) and "
             "cast(EBinOp, cast(SIf, result.stmts[1]).if_[0]).expr1 == EBinOp(EVar(split_of(self, rank)[0].lower() + '1_pos'), OAdd(), EInt(1)) and "
             "cast(EBinOp, cast(SIf, result.stmts[1]).if_[0]).op == OLt() and "
             "is_len_of(cast(EBinOp, cast(SIf, result.stmts[1]).if_[0]).expr2, 'inputs_' + split_of(self, rank)[0].lower() + '1') and "
             "isinstance(cast(SAssign, cast(SIf, result.stmts[1]).if_[1]).expr, EAccess) and "
             "is_coords_of(cast(EAccess, cast(SAssign, cast(SIf, result.stmts[1]).if_[1]).expr).obj, 'inputs_' + split_of(self, rank)[0].lower() + '1') and "
             "cast(EAccess, cast(SAssign, cast(SIf, result.stmts[1]).if_[1]).expr).ind == EBinOp(EVar(split_of(self, rank)[0].lower() + '1_pos'), OAdd(), EInt(1)) and "
             "cast(SAssign, cast(SIf, result.stmts[1]).else_).expr == EVar(split_of(self, rank)[0].lower().upper())"),
        ],
    ),
}
