"""Sidecar contracts for teaal/ir/tensor.py (class Tensor). The repository file is untouched."""

MODULES = {"Tensor": "teaal/ir/tensor.py"}

OBJ_CLASSES = {
    "Tensor": {
        "name": "str", "ranks": "List[str]", "init_ranks": "List[str]",
        "iter_ptr": "int", "rank_ptr": "int", "is_output": "bool", "is_flat": "bool",
    },
}

ASSUMPTIONS = [
    "Counter(list) is modelled as an abstract value determined by the list's contents (multiset equality not interpreted)",
    "str.lower/upper/join are uninterpreted functions",
]


def wf_tensor(t):
    """representation invariant of Tensor"""
    return (0 <= t.rank_ptr and t.rank_ptr <= t.iter_ptr and t.rank_ptr <= len(t.ranks)
            and not same_ref(t.ranks, t.init_ranks))


def fresh_tensor(t):
    """the state a Tensor has right after construction (what `Fresh` means for one tensor)"""
    return (t.iter_ptr == 0 and t.rank_ptr == 0 and t.ranks == t.init_ranks
            and not t.is_output and not t.is_flat and not same_ref(t.ranks, t.init_ranks))


T_FIELDS = ["self.iter_ptr", "self.rank_ptr", "self.ranks", "self.is_output", "self.is_flat"]

CONTRACTS = {
    "Tensor.__init__": dict(
        raises={"ValueError": "not distinct(ranks)"},
        modifies=["self.name", "self.ranks", "self.init_ranks"] + T_FIELDS,
        ensures=[
            ("name", "self.name == name"),
            ("ranks", "self.ranks == old(ranks) and self.init_ranks == old(ranks)"),
            ("own_copy", "fresh(self.ranks) and fresh(self.init_ranks)"),
            ("fresh", "fresh_tensor(self)"),
            ("arg_untouched", "ranks == old(ranks)"),
        ],
    ),
    "Tensor.reset": dict(
        modifies=T_FIELDS,
        ensures=[
            ("fresh", "fresh_tensor(self)"),
            ("init_kept", "self.init_ranks == old(self.init_ranks) and same_ref(self.init_ranks, old(self.init_ranks))"),
            ("name_kept", "self.name == old(self.name)"),
            ("own_copy", "fresh(self.ranks)"),
        ],
    ),
    "Tensor.get_ranks": dict(
        pure=True, fresh_result=True,
        ensures=[("slice", "result == self.ranks[self.rank_ptr:]"),
                 ("elements", "implies(0 <= self.rank_ptr and self.rank_ptr <= len(self.ranks), "
                              "        len(result) == len(self.ranks) - self.rank_ptr and "
                              "        all(result[i] == self.ranks[self.rank_ptr + i] for i in range(len(result))) and "
                              "        all(self.ranks[p] == result[p - self.rank_ptr] for p in range(self.rank_ptr, len(self.ranks))))")],
    ),
    "Tensor.get_init_ranks": dict(
        pure=True,
        ensures=[("alias", "same_ref(result, self.init_ranks)")],
    ),
    "Tensor.get_is_output": dict(pure=True, ensures=[("v", "result == self.is_output")]),
    "Tensor.root_name": dict(pure=True, ensures=[("v", "result == self.name")]),
    "Tensor.set_is_output": dict(
        modifies=["self.is_output"],
        ensures=[("v", "self.is_output == is_output")],
    ),
    "Tensor.tensor_name": dict(
        pure=True,
        ensures=[("spelled_from_current_ranks",
                  "result == self.name + '_' + ''.join(self.ranks[self.rank_ptr:]) + "
                  "('_flat' if self.is_flat and not self.is_output else '')")],
    ),
    "Tensor.from_fiber": dict(
        modifies=["self.rank_ptr", "self.is_flat"],
        ensures=[
            ("ptr", "self.rank_ptr == old(self.iter_ptr)"),
            ("flat", "self.is_flat == (old(self.is_flat) and old(self.rank_ptr) == old(self.iter_ptr))"),
        ],
    ),
    "Tensor.pop": dict(
        requires=["0 <= self.iter_ptr and self.iter_ptr < len(self.ranks)"],
        modifies=["self.iter_ptr"],
        ensures=[
            ("ptr", "self.iter_ptr == old(self.iter_ptr) + 1"),
            ("res", "result == self.ranks[old(self.iter_ptr)].lower()"),
        ],
    ),
    "Tensor.peek": dict(
        pure=True, requires=["0 <= self.iter_ptr"],
        ensures=[("res", "(result == self.ranks[self.iter_ptr].lower()) if self.iter_ptr < len(self.ranks) else (result is None)")],
    ),
    "Tensor.peek_clean": dict(
        pure=True, requires=["0 <= self.iter_ptr and self.iter_ptr < len(self.ranks)"],
        ensures=[("res", "result == self.ranks[self.iter_ptr]")],
    ),
    "Tensor.peek_rest": dict(
        pure=True, fresh_result=True,
        ensures=[("res", "result == self.ranks[self.iter_ptr:]")],
    ),
    "Tensor.get_access": dict(
        pure=True, fresh_result=True, requires=["0 <= self.rank_ptr"],
        ensures=[("len", "len(result) == len(self.ranks[self.rank_ptr:])"),
                 ("elems", "all(result[i] == self.ranks[self.rank_ptr + i].lower() for i in range(len(result)))")],
    ),
    "Tensor.fiber_name": dict(
        pure=True, requires=["0 <= self.iter_ptr"],
        ensures=[("res", "result == self.name.lower() + '_' + (self.ranks[self.iter_ptr].lower() if self.iter_ptr < len(self.ranks) else ('ref' if self.is_output else 'val'))")],
    ),
    "Tensor.swizzle": dict(
        requires=["0 <= self.rank_ptr and self.rank_ptr <= len(self.ranks)", "not same_ref(self.ranks, rank_order)"],
        raises={"ValueError": "Counter(self.ranks[self.rank_ptr:]) != Counter(rank_order)"},
        modifies=["self.ranks[]", "self.is_flat"],
        ensures=[
            ("prefix_kept", "self.ranks[:self.rank_ptr] == old(self.ranks[:self.rank_ptr])"),
            ("active", "self.ranks[self.rank_ptr:] == rank_order"),
            ("flat", "self.is_flat == (old(self.is_flat) and old(self.ranks[self.rank_ptr:]) == rank_order)"),
            ("same_list_object", "same_ref(self.ranks, old(self.ranks))"),
        ],
    ),
    "Tensor.update_ranks": dict(
        requires=["0 <= self.rank_ptr and self.rank_ptr <= len(self.ranks)"],
        modifies=["self.ranks", "self.is_flat"],
        ensures=[
            ("ranks", "self.ranks == old(self.ranks[:self.rank_ptr] + ranks)"),
            ("flat", "self.is_flat == (old(len(self.ranks)) - self.rank_ptr > len(ranks))"),
            ("own_copy", "fresh(self.ranks)"),
        ],
    ),
}

CONTRACTS["Tensor.__get_rank"] = dict(
    pure=True, requires=["0 <= self.iter_ptr and self.iter_ptr < len(self.ranks)"],
    ensures=[("res", "result == self.ranks[self.iter_ptr].lower()")],
)


# ---------------------------------------------------------------- native small-scope generators (refuter / replay)
def _tensor_states():
    from teaal.ir.tensor import Tensor
    for ranks in ([], ["M"], ["M", "K"], ["K", "M", "N"]):
        for rp in range(len(ranks) + 1):
            for ip in range(rp, len(ranks) + 1):
                for out in (False, True):
                    for flat in (False, True):
                        for swz in (False, True):
                            t = Tensor("A", list(ranks))
                            if swz and len(ranks) > 1:
                                t.ranks = list(reversed(ranks))
                            t.rank_ptr, t.iter_ptr, t.is_output, t.is_flat = rp, ip, out, flat
                            yield t


def _perms(xs):
    import itertools
    return [list(p) for p in itertools.permutations(xs)]


def _gen_noargs():
    return ((t, ()) for t in _tensor_states())


def _gen_swizzle():
    for t in _tensor_states():
        act = t.ranks[t.rank_ptr:]
        for p in _perms(act)[:6]:
            yield t.__class__.__new__(t.__class__), None   # placeholder never used
    return


def _gen_swizzle2():
    import copy
    for t in _tensor_states():
        act = t.ranks[t.rank_ptr:]
        cands = _perms(act)[:6] + [act + ["Z"], act[:-1], ["Q"] + act[1:]]
        for p in cands:
            yield copy.deepcopy(t), (list(p),)


def _gen_update():
    import copy
    for t in _tensor_states():
        for new in ([], ["P"], ["P1", "P0"], ["K", "M1", "M0"]):
            yield copy.deepcopy(t), (list(new),)


def _gen_init():
    from teaal.ir.tensor import Tensor
    for ranks in ([], ["M"], ["M", "K"], ["M", "M"], ["K", "M", "K"], ["A", "B", "C"]):
        yield Tensor.__new__(Tensor), ("T", list(ranks))


def _gen_bool():
    for t in _tensor_states():
        for b in (False, True):
            yield t, (b,)


GEN = {k: _gen_noargs for k in (
    "Tensor.reset", "Tensor.get_ranks", "Tensor.get_init_ranks", "Tensor.get_is_output", "Tensor.root_name",
    "Tensor.tensor_name", "Tensor.from_fiber", "Tensor.pop", "Tensor.peek", "Tensor.peek_clean",
    "Tensor.peek_rest", "Tensor.get_access", "Tensor.fiber_name", "Tensor.__get_rank")}
GEN["Tensor.swizzle"] = _gen_swizzle2
GEN["Tensor.update_ranks"] = _gen_update
GEN["Tensor.__init__"] = _gen_init
GEN["Tensor.set_is_output"] = _gen_bool
