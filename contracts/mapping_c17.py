"""C17 view of Mapping.__init__ (teaal/parse/mapping.py): every partitioning directive and every spacetime stamp is
handed to its parser exactly as written, once per occurrence and in order - nothing is cached, re-keyed or skipped on
the way from the YAML text to the parser. (What the parsers accept is the bounded grammar half of C17.)"""

MODULES = {"Mapping": "teaal/parse/mapping.py", "PartitioningParser": None, "SpaceTimeParser": None}
OBJ_CLASSES = {"Mapping": {"loop_orders": "Dict[str, Any]", "partitioning": "Dict[str, Any]", "rank_orders": "Dict[str, Any]",
                           "spacetime": "Dict[str, Any]"}}
ASSUMPTIONS = [
    "assumed observers: PartitioningParser.parse_ranks / parse_partitioning and SpaceTimeParser.parse are deterministic "
    "functions of the string they are given (lark; their acceptance and result are the bounded half of C17)",
    "Mapping.__init__ (C17 view): the YAML value is typed as the nesting the partitioning section has "
    "(tensor -> rank tuple -> list of directive strings); the two outer loops are cut without an invariant (what is "
    "proved is the statement about one entry's directive list, for every entry)",
]
_Y = "Optional[Dict[str, Dict[str, Dict[str, Optional[Dict[str, List[str]]]]]]]"

CONTRACTS = {
    "PartitioningParser.parse_ranks": dict(params=["ranks"], returns="Tree", assumed=True, observer=True),
    "PartitioningParser.parse_partitioning": dict(params=["part"], returns="Tree", assumed=True, observer=True),
    "SpaceTimeParser.parse": dict(params=["info"], returns="Tree", assumed=True, observer=True),
    "Mapping.__init__": dict(
        kinds={"yaml": _Y},
        local_kinds={"partitioning": "Optional[Dict[str, Dict[Tree, List[Tree]]]]",
                     "spacetime": "Optional[Dict[str, Dict[str, List[Tree]]]]"},
        modifies=["self.loop_orders", "self.partitioning", "self.rank_orders", "self.spacetime"],
        raises={"ValueError": None, "KeyError": None},
        ensures=[],
        ghost_after={"partitioning[tensor] = {}": "g_inner = partitioning[tensor]\n",
                     "spacetime[tensor] = {}": "g_st = spacetime[tensor]\n",
                     "spacetime[tensor][stamp] = []": "g_sl = spacetime[tensor][stamp]\n"},
        loops={
            0: dict(idx="k0", modifies=["partitioning[]"], ghost_vars=["g_inner"],
                    inv=[("own", "fresh(partitioning)")]),
            1: dict(idx="k1", modifies=["g_inner[]"],
                    inv=[("inner", "same_ref(partitioning[tensor], g_inner) and fresh(g_inner) and not same_ref(g_inner, partitioning)")]),
            # the spacetime section: every stamp string of `space` and of `time` is handed to SpaceTimeParser.parse as
            # written, once, in order
            3: dict(idx="k3", modifies=["spacetime[]"], ghost_vars=["g_st", "g_sl"],
                    inv=[("own", "fresh(spacetime)")]),
            4: dict(idx="k4", modifies=["g_st[]"], ghost_vars=["g_sl"],
                    inv=[("inner", "same_ref(spacetime[tensor], g_st) and fresh(g_st) and not same_ref(g_st, spacetime)")]),
            5: dict(idx="k5", modifies=["g_sl[]"],
                    inv=[("each_stamp_parsed_as_written_in_order",
                          "same_ref(spacetime[tensor][stamp], g_sl) and len(g_sl) == k5 and "
                          "all(same_ref(g_sl[j], SpaceTimeParser.parse(info[stamp][j])) for j in range(k5))"),
                         ("own_list", "fresh(g_sl) and not same_ref(g_sl, g_st) and not same_ref(g_sl, spacetime)")]),
            2: dict(idx="k2", modifies=["partitioning[tensor][ranks_tree][]"],
                    inv=[("each_directive_parsed_as_written_in_order",
                          "len(partitioning[tensor][ranks_tree]) == k2 and "
                          "all(same_ref(partitioning[tensor][ranks_tree][j], PartitioningParser.parse_partitioning(parts[j])) for j in range(k2))"),
                         ("own_list", "fresh(partitioning[tensor][ranks_tree])")]),
        },
        abstract_loops={},
    ),
}
