"""Sidecar contracts for C07 (emission-time naming protocol): every statement the header/utility translators emit
that binds a tensor variable <Name>_<Ranks> is built from tensor_name() and carries rank ids built from get_ranks()
in the SAME tensor state, so the rank string inside the name is the rank-id list next to it.
HiFiber nodes are modelled as immutable value classes (constructor terms), so the emitted statement is inspected."""

MODULES = {"TransUtils": "teaal/trans/utils.py", "Header": "teaal/trans/header.py"}

_E = "Expression"
BASES = {c: ["Expression"] for c in ("EVar", "EString", "EList", "EMethod", "EFunc")}
BASES.update({"Expression": [], "AParam": ["Argument"], "AJust": ["Argument"], "Argument": [],
              "SAssign": ["Statement"], "SExpr": ["Statement"], "SBlock": ["Statement"], "Statement": [],
              "AVar": ["Assignable"], "Assignable": []})
VAL_CLASSES = {
    "Expression": {"fields": [], "getters": {}}, "Argument": {"fields": [], "getters": {}},
    "Statement": {"fields": [], "getters": {}}, "Assignable": {"fields": [], "getters": {}},
    "EVar": {"fields": [("name", "str")], "getters": {}},
    "EString": {"fields": [("string", "str")], "getters": {}},
    "EList": {"fields": [("list", "List[Expression]")], "getters": {}},
    "EMethod": {"fields": [("obj", _E), ("name", "str"), ("args", "List[Argument]")], "getters": {}},
    "EFunc": {"fields": [("name", "str"), ("args", "List[Argument]")], "getters": {}},
    "AParam": {"fields": [("name", "str"), ("expr", _E)], "getters": {}},
    "AJust": {"fields": [("expr", _E)], "getters": {}},
    "AVar": {"fields": [("name", "str")], "getters": {}},
    "SAssign": {"fields": [("assn", "Assignable"), ("expr", _E)], "getters": {}},
    "SExpr": {"fields": [("expr", _E)], "getters": {}},
    "SBlock": {"fields": [("stmts", "List[Statement]")], "getters": {}},
}
OBJ_CLASSES = {
    "Header": {"program": "ProgramO", "metrics": "Optional[Metrics]", "partitioner": "Partitioner"},
}
ASSUMPTIONS = [
    "assumed frames: LoopOrder.apply(tensor), Program.apply_partition_swizzling / apply_all_partitioning(tensor) change "
    "only tensor.ranks (contents or list) and tensor.is_flat, never rank_ptr / name / is_output (they go through "
    "Tensor.swizzle / Tensor.update_ranks, proved under C05)",
    "run-time clauses of C07 (what fibertree objects hold, inputs unchanged at run time) are not applicable",
]


def spells(name, t):
    """the variable name is the tensor's current name (root, '_', the current rank ids, optional _flat)"""
    return name == t.name + "_" + "".join(t.ranks[t.rank_ptr:]) + ("_flat" if t.is_flat and not t.is_output else "")


def rank_ids_arg(arg, t):
    """arg is rank_ids=[<the tensor's current rank ids as strings>]"""
    return (isinstance(arg, AParam) and cast(AParam, arg).name == "rank_ids"
            and isinstance(cast(AParam, arg).expr, EList)
            and len(cast(EList, cast(AParam, arg).expr).list) == len(t.ranks) - t.rank_ptr
            and all(cast(EList, cast(AParam, arg).expr).list[i] == EString(t.ranks[t.rank_ptr + i])
                    for i in range(len(t.ranks) - t.rank_ptr)))


_TSTATE = ["tensor.ranks", "tensor.ranks[]", "tensor.is_flat"]
CONTRACTS = {
    "ProgramO.get_loop_order": dict(params=["self"], returns="LoopOrderO", assumed=True, observer=True),
    "ProgramO.get_equation": dict(params=["self"], returns="IrEquationO", assumed=True, observer=True),
    "IrEquationO.get_output": dict(params=["self"], returns="Tensor", assumed=True, observer=True, frozen=False),
    "LoopOrderO.apply": dict(params=["self", "tensor"], kinds={"tensor": "Tensor"}, returns="None", assumed=True,
                             modifies=_TSTATE, raises={"ValueError": None},
                             requires=["0 <= tensor.rank_ptr and tensor.rank_ptr <= len(tensor.ranks)"],
                             ensures=["0 <= tensor.rank_ptr and tensor.rank_ptr <= len(tensor.ranks)"]),
    "ProgramO.apply_partition_swizzling": dict(params=["self", "tensor"], kinds={"tensor": "Tensor"}, returns="None",
                                               assumed=True, modifies=_TSTATE, raises={"ValueError": None},
                                               ensures=["0 <= tensor.rank_ptr and tensor.rank_ptr <= len(tensor.ranks)"]),
    "ProgramO.apply_all_partitioning": dict(params=["self", "tensor"], kinds={"tensor": "Tensor"}, returns="None",
                                            assumed=True, modifies=_TSTATE, raises={"ValueError": None},
                                            ensures=["0 <= tensor.rank_ptr and tensor.rank_ptr <= len(tensor.ranks)"]),
    "Header.__make_shape": dict(params=["self", "args"], returns="List[Argument]", assumed=True, modifies=["args[]"],
                                raises={"ValueError": None, "KeyError": None},
                                ensures=["same_ref(result, args)", "len(args) >= old(len(args))",
                                         "all(args[i] == old(args)[i] for i in range(old(len(args))))"]),

    "TransUtils.build_rank_ids": dict(
        requires=["0 <= tensor.rank_ptr and tensor.rank_ptr <= len(tensor.ranks)"],
        modifies=[],
        ensures=[("rank_ids_of_current_state", "rank_ids_arg(result, tensor)")],
        loops={},
    ),
    "TransUtils.build_set_rank_ids": dict(
        requires=["0 <= tensor.rank_ptr and tensor.rank_ptr <= len(tensor.ranks)"],
        modifies=[],
        ensures=[("in_place_on_named_object",
                  "isinstance(result, SExpr) and isinstance(cast(SExpr, result).expr, EMethod) and "
                  "cast(EMethod, cast(SExpr, result).expr).obj == EVar(name) and "
                  "cast(EMethod, cast(SExpr, result).expr).name == 'setRankIds' and "
                  "len(cast(EMethod, cast(SExpr, result).expr).args) == 1 and "
                  "rank_ids_arg(cast(EMethod, cast(SExpr, result).expr).args[0], tensor)")],
    ),
    "TransUtils.build_swizzle": dict(
        requires=["0 <= tensor.rank_ptr and tensor.rank_ptr <= len(tensor.ranks)"],
        modifies=[],
        ensures=[("binds_new_name_with_current_rank_ids",
                  "isinstance(result, SAssign) and cast(SAssign, result).assn == AVar(new_name) and "
                  "isinstance(cast(SAssign, result).expr, EMethod) and "
                  "cast(EMethod, cast(SAssign, result).expr).obj == EVar(old_name) and "
                  "cast(EMethod, cast(SAssign, result).expr).name == 'swizzleRanks' and "
                  "len(cast(EMethod, cast(SAssign, result).expr).args) == 1 and "
                  "rank_ids_arg(cast(EMethod, cast(SAssign, result).expr).args[0], tensor)")],
    ),
    "Header.make_get_root": dict(
        requires=["0 <= tensor.iter_ptr"],
        modifies=[],
        ensures=[("root_of_the_named_tensor",
                  "isinstance(result, SAssign) and cast(SAssign, result).assn == AVar(tensor.fiber_name()) and "
                  "isinstance(cast(SAssign, result).expr, EMethod) and "
                  "spells(cast(EVar, cast(EMethod, cast(SAssign, result).expr).obj).name, tensor) and "
                  "isinstance(cast(EMethod, cast(SAssign, result).expr).obj, EVar) and "
                  "cast(EMethod, cast(SAssign, result).expr).name == 'getRoot'")],
    ),
    "Header.make_tensor_from_fiber": dict(
        requires=["0 <= tensor.rank_ptr and tensor.rank_ptr <= tensor.iter_ptr and tensor.iter_ptr <= len(tensor.ranks)"],
        modifies=["tensor.rank_ptr", "tensor.is_flat"],
        ensures=[("name_spells_rank_ids",
                  "isinstance(result, SAssign) and isinstance(cast(SAssign, result).assn, AVar) and "
                  "spells(cast(AVar, cast(SAssign, result).assn).name, tensor) and "
                  "isinstance(cast(SAssign, result).expr, EMethod) and "
                  "cast(EMethod, cast(SAssign, result).expr).name == 'fromFiber' and "
                  "len(cast(EMethod, cast(SAssign, result).expr).args) == 3 and "
                  "rank_ids_arg(cast(EMethod, cast(SAssign, result).expr).args[0], tensor)")],
    ),
    "Header.make_swizzle": dict(
        requires=["0 <= tensor.rank_ptr and tensor.rank_ptr <= len(tensor.ranks)", "not same_ref(tensor.ranks, ranks)"],
        modifies=_TSTATE,
        raises={"ValueError": None},
        ensures=[("name_spells_rank_ids",
                  "(isinstance(result, SBlock) and len(cast(SBlock, result).stmts) == 0) or "
                  "(isinstance(result, SAssign) and isinstance(cast(SAssign, result).assn, AVar) and "
                  " spells(cast(AVar, cast(SAssign, result).assn).name, tensor) and "
                  " isinstance(cast(SAssign, result).expr, EMethod) and "
                  " cast(EMethod, cast(SAssign, result).expr).name == 'swizzleRanks' and "
                  " len(cast(EMethod, cast(SAssign, result).expr).args) == 1 and "
                  " rank_ids_arg(cast(EMethod, cast(SAssign, result).expr).args[0], tensor))"),
                 ("silent_only_if_name_unchanged",
                  "implies(isinstance(result, SBlock), "
                  "        tensor.name + '_' + ''.join(tensor.ranks[tensor.rank_ptr:]) + ('_flat' if tensor.is_flat and not tensor.is_output else '') "
                  "        == old(tensor.name + '_' + ''.join(tensor.ranks[tensor.rank_ptr:]) + ('_flat' if tensor.is_flat and not tensor.is_output else '')))"),
                 ("swizzles_the_object_it_had",
                  "isinstance(result, SBlock) or "
                  "cast(EMethod, cast(SAssign, result).expr).obj == EVar(old(tensor.name + '_' + ''.join(tensor.ranks[tensor.rank_ptr:]) + "
                  "('_flat' if tensor.is_flat and not tensor.is_output else '')))")],
    ),
    "Header.make_output": dict(
        modifies=["*.ranks", "*[]", "*.is_flat"],
        raises={"ValueError": None, "KeyError": None},
        ensures=[("name_spells_rank_ids",
                  "isinstance(result, SAssign) and isinstance(cast(SAssign, result).assn, AVar) and "
                  "spells(cast(AVar, cast(SAssign, result).assn).name, self.program.get_equation().get_output()) and "
                  "isinstance(cast(SAssign, result).expr, EFunc) and cast(EFunc, cast(SAssign, result).expr).name == 'Tensor' and "
                  "len(cast(EFunc, cast(SAssign, result).expr).args) >= 2 and "
                  "rank_ids_arg(cast(EFunc, cast(SAssign, result).expr).args[0], self.program.get_equation().get_output())")],
    ),
}
