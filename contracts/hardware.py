"""Sidecar contract for Hardware.get_components (C13): which components count as bound "functional components" of an
Einsum. The component class hierarchy is declared here in full and checked against the repository on every run
(closed: a new or re-parented component class fails the structural hierarchy obligation)."""

MODULES = {"Hardware": "teaal/ir/hardware.py"}
_COMP = "teaal/ir/component.py"
_HIER = {
    "Component": [],
    "FunctionalComponent": ["Component"], "MemoryComponent": ["Component"], "MergerComponent": ["Component"],
    "BufferComponent": ["MemoryComponent"], "DRAMComponent": ["MemoryComponent"],
    "BuffetComponent": ["BufferComponent"], "CacheComponent": ["BufferComponent"],
    "ComputeComponent": ["FunctionalComponent"], "IntersectorComponent": ["FunctionalComponent"],
    "SequencerComponent": ["FunctionalComponent"],
    "LeaderFollowerComponent": ["IntersectorComponent"], "SkipAheadComponent": ["IntersectorComponent"],
    "TwoFingerComponent": ["IntersectorComponent"],
}
BASES = dict(_HIER)
MODULES.update({c: _COMP for c in _HIER})
CLOSED_HIERARCHIES = ["Component"]

OBJ_CLASSES = {
    "Hardware": {"configs": "Dict[str, str]", "tree": "Dict[str, LevelO]", "bindings": "BindingsO",
                 "program": "ProgramO", "components": "Dict[str, Component]"},
    "Component": {"name": "str", "num_instances": "int", "bindings": "Dict[str, List[Any]]"},
}

ASSUMPTIONS = [
    "assumed observer: Bindings.get_bindings() (the parser's per-Einsum dictionary component name -> binding list); "
    "its keys are enumerated in an arbitrary order (the proof holds for every order)",
]


def bound_names(hw, einsum):
    """component names that have a binding entry for this Einsum"""
    return hw.bindings.get_bindings()[einsum]


CONTRACTS = {
    "BindingsO.get_bindings": dict(params=["self"], returns="Dict[str, Dict[str, List[Any]]]", assumed=True, observer=True),
    "Hardware.get_components": dict(
        kinds={"class_": "int"},
        # callers (Fusion.add_einsum and its specification functions) use it as a heap-independent observer; the
        # body is verified here against what the observer is taken to mean
        observer=True, params=["self", "einsum", "class_"], returns="List[Component]",
        pure=True, fresh_result=True,
        requires=["einsum in self.bindings.get_bindings()",
                  "all(n in self.components for n in bound_names(self, einsum))"],
        # ghost witnesses in both directions (no existential for the solver to guess): g_src[t] = position in the
        # binding enumeration the t-th result came from; g_at[j] = where the j-th bound name went (-1: filtered out)
        ghost_entry="g_src = []\ng_at = []\n",
        ghost_after={"components.append(component)": "g_src = g_src + [k]\ng_at = g_at + [len(components) - 1]\n"},
        ensures_env="exit",
        ensures=[
            ("only_bound_instances_of_the_class",
             "len(g_src) == len(result) and "
             "all(0 <= g_src[t] and g_src[t] < len(names) and same_ref(result[t], self.components[names[g_src[t]]]) "
             "    and isinstance(result[t], class_) for t in range(len(result)))"),
            ("each_once_in_binding_order", "all(g_src[t] < g_src[u] for u in range(len(result)) for t in range(u))"),
            ("every_bound_instance_of_the_class",
             "len(g_at) == len(names) and "
             "all(implies(isinstance(self.components[names[j]], class_), 0 <= g_at[j] and g_at[j] < len(result) and g_src[g_at[j]] == j) "
             "    for j in range(len(names)))"),
        ],
        loops={0: dict(idx="k", enum="names", modifies=["components[]"], ghost_vars=["g_src", "g_at"],
                       ghost_step="g_at = g_at if len(g_at) == k else g_at + [-1]\n",
                       inv=[("src", "len(g_src) == len(components) and "
                                    "all(0 <= g_src[t] and g_src[t] < k and same_ref(components[t], self.components[names[g_src[t]]]) "
                                    "    and isinstance(components[t], class_) for t in range(len(components)))"),
                            ("order", "all(g_src[t] < g_src[u] for u in range(len(components)) for t in range(u))"),
                            ("complete", "len(g_at) == k and all(implies(isinstance(self.components[names[j]], class_), "
                                         "            0 <= g_at[j] and g_at[j] < len(components) and g_src[g_at[j]] == j) for j in range(k))"),
                            ("own", "fresh(components)")])},
    ),
}
