"""Sidecar contract for Collector.__build_time (C14): the execution time is the sum over fusion blocks, in order, of a
block time that is 0 (no component), the accumulated time of the block's only component, or max(...) over the
accumulated times of the block's components, each component once. What each accumulated component time contains
(one term per (Einsum, component) of the block) is stated as a loop invariant on the key set; the values are served by
the bounded roll-up check."""
from contracts.traces import VAL_CLASSES as _VC, BASES as _B

MODULES = {"Collector": "teaal/trans/collector.py", "SBlock": "teaal/hifiber/stmt.py", "TransUtils": None}
VAL_CLASSES = dict(_VC)
BASES = dict(_B)
OBJ_CLASSES = {
    "Collector": {"program": "ProgramT", "metrics": "MetricsT", "fusion": "FusionT"},
    "SBlock": {"stmts": "List[Any]"},
}
ASSUMPTIONS = [
    "assumed observers: Fusion.get_blocks() (list of blocks, each a list of Einsum names), Fusion.get_components(einsum) "
    "(component names with a time in that Einsum's dump), TransUtils.build_expr (an Expression for a Python value)",
    "sorted(keys) is modelled as a duplicate-free rearrangement of the keys in string order",
]
_OBS = dict(assumed=True, observer=True)

# left-nested sum: lsum(xs, 0) = xs[0]; lsum(xs, i + 1) = lsum(xs, i) + xs[i + 1]
RECFUN = {
    "lsum": {"params": ["xs", "i"], "returns": "Expression",
             "base": "xs[0]", "step": "EBinOp(lsum(xs, i), OAdd(), xs[i + 1])"},
}


def time_of(einsum, comp):
    """metrics[<einsum>][<comp>]["time"]"""
    return EAccess(EAccess(EAccess(EVar("metrics"), EString(einsum)), EString(comp)), EString("time"))


def block_comps(c, block, x):
    """x is a component with a time in some Einsum of the block"""
    return any(x in c.fusion.get_components(block[e]) for e in range(len(block)))


def block_shape(bt, comps, ct):
    return ((len(comps) == 0 and bt == EInt(0))
            or (len(comps) == 1 and bt == ct[comps[0]])
            or (len(comps) > 1 and isinstance(bt, EFunc) and cast(EFunc, bt).name == "max"
                and len(cast(EFunc, bt).args) == len(comps)
                and all(cast(EFunc, bt).args[t] == AJust(ct[comps[t]]) for t in range(len(comps)))))


CONTRACTS = {
    "FusionT.get_blocks": dict(params=["self"], returns="List[List[str]]", **_OBS),
    "FusionT.get_components": dict(params=["self", "einsum"], returns="List[str]", **_OBS),
    "TransUtils.build_expr": dict(params=["obj"], returns="Expression", **_OBS),
    "SBlock.__init__": dict(kinds={"stmts": "List[Any]"}, modifies=["self.stmts"], ensures=["same_ref(self.stmts, stmts)"]),
    "SBlock.add": dict(
        kinds={"stmt": "Any"},
        requires=["not same_ref(self, stmt)"],
        modifies=["self.stmts[]"],
        ensures=[("appends_or_splices",
                  "(isinstance(stmt, SBlock) and self.stmts == old(self.stmts) + old(cast(SBlock, stmt).stmts)) or "
                  "(not isinstance(stmt, SBlock) and self.stmts == old(self.stmts) + [stmt])")],
    ),
    "Collector.__build_time": dict(
        requires=["len(self.fusion.get_blocks()) > 0"],
        raises={"AssertionError": None},
        modifies=[],
        # g_bt[b]: the block time of block b; g_tm[b]: the running total after block b. The left-nested sum is stated as
        # the recurrence g_tm[0] = g_bt[0], g_tm[b + 1] = g_tm[b] + g_bt[b + 1] (no recursive function needed)
        ghost_entry="g_bt = []\ng_tm = []\n",
        ghost_after={
            # the block time: 0 without components, the only component's accumulated time, or max over every component
            # of the block, each once (sorted order)
            "if len(comps) == 0":
                "assert all(block_comps(self, block, comps[t]) for t in range(len(comps)))\n"
                "assert all(self.fusion.get_components(block[e])[j] in comps for e in range(len(block)) "
                "for j in range(len(self.fusion.get_components(block[e]))))\n"
                "assert all(comps[t] != comps[u] for u in range(len(comps)) for t in range(u))\n"
                "assert block_shape(block_time, comps, component_time)\n",
            "if time": "g_bt = g_bt + [block_time]\ng_tm = g_tm + [time]\n"},
        ensures_env="exit",
        ensures=[
            ("two_statements", "len(result.stmts) == 2 and "
                               "result.stmts[0] == SAssign(AAccess(EVar('metrics'), EString('blocks')), TransUtils.build_expr(self.fusion.get_blocks()))"),
            ("one_block_time_per_block", "len(g_bt) == len(self.fusion.get_blocks()) and len(g_tm) == len(g_bt)"),
            ("time_is_the_sum_over_blocks_in_order",
             "g_tm[0] == g_bt[0] and "
             "all(g_tm[b + 1] == EBinOp(g_tm[b], OAdd(), g_bt[b + 1]) for b in range(len(g_bt) - 1)) and "
             "result.stmts[1] == SAssign(AAccess(EVar('metrics'), EString('time')), g_tm[len(g_tm) - 1])"),
        ],
        loops={
            1: dict(idx="ke", modifies=["component_time[]"],
                    inv=[("own", "fresh(component_time)"),
                         ("keys_only", "all(any(x in self.fusion.get_components(block[e]) for e in range(ke)) for x in component_time)"),
                         ("keys_all", "all(self.fusion.get_components(block[e])[j] in component_time for e in range(ke) "
                                      "for j in range(len(self.fusion.get_components(block[e]))))"),
                         ("last_component_is_a_key", "implies(not is_empty(component_time), comp in component_time)")]),
            2: dict(idx="kc", modifies=["component_time[]"],
                    inv=[("own", "fresh(component_time)"),
                         ("keys_only", "all(any(x in self.fusion.get_components(block[e]) for e in range(ke)) or "
                                       "any(self.fusion.get_components(einsum)[j] == x for j in range(kc)) for x in component_time)"),
                         ("keys_all", "all(self.fusion.get_components(block[e])[j] in component_time for e in range(ke) "
                                      "for j in range(len(self.fusion.get_components(block[e])))) and "
                                      "all(self.fusion.get_components(einsum)[j] in component_time for j in range(kc))"),
                         ("einsum", "einsum == block[ke]"),
                         ("last_component_is_a_key", "implies(not is_empty(component_time), comp in component_time)")]),
            0: dict(idx="kb", ghost_vars=["g_bt", "g_tm"], modifies=[],
                    inv=[("lens", "len(g_bt) == kb and len(g_tm) == kb"),
                         ("running_total", "implies(kb == 0, time is None) and "
                                           "implies(kb > 0, time is not None and time == g_tm[kb - 1] and g_tm[0] == g_bt[0])"),
                         ("recurrence", "all(g_tm[b + 1] == EBinOp(g_tm[b], OAdd(), g_bt[b + 1]) for b in range(kb - 1))")]),
        },
    ),
}
