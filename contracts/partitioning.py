"""Sidecar contracts for the legality guards of teaal/ir/partitioning.py (C18)."""

MODULES = {"Partitioning": "teaal/ir/partitioning.py"}
OPAQUE_ATTRS = {"Tree": {"data": "str", "children": "List[Tree]"}}
OBJ_CLASSES = {
    "Partitioning": {"graph": "DiGraph", "orig_ranks": "Set[str]", "coord_math": "CoordMath",
                     "part_rank": "Dict[str, str]", "dyn_parts": "Set[Any]", "static_parts": "Set[Any]",
                     "all_parts": "Set[Any]"},
}
ASSUMPTIONS = [
    "CoordMath.get_all_exprs(rank) is a heap-independent observer; a rank is 'used in index math' iff it has more "
    "than one expression (how the compiler states the rule)",
]


def has_flatten(parts):
    return any(parts[j].data == "flatten" for j in range(len(parts)))


def is_static(p):
    return p.data == "uniform_shape" or p.data == "nway_shape"


def bad_flatten_rank(pt, r, all_parts, all_ranks):
    """a rank that may not be flattened: also partitioned on its own, already a flattened rank, or a partition level
    other than the bottom level of an original rank"""
    return (((r,) in all_parts and len(all_parts[(r,)]) > 0)
            or (r not in pt.orig_ranks and (r in all_ranks or r[:-1] not in pt.orig_ranks or r[-1] != "0")))


def flatten_violation(pt, part_ranks, all_parts, all_ranks):
    return ((not has_flatten(all_parts[part_ranks]) and len(part_ranks) != 1)
            or (has_flatten(all_parts[part_ranks])
                and (len(all_parts[part_ranks]) > 1 or len(part_ranks) < 2
                     or any(len(pt.coord_math.get_all_exprs(part_ranks[j].lower())) > 1 for j in range(len(part_ranks)))
                     or any(bad_flatten_rank(pt, part_ranks[j], all_parts, all_ranks) for j in range(len(part_ranks))))))


CONTRACTS = {
    "CoordMath.get_all_exprs": dict(params=["self", "rank"], returns="List[Any]", assumed=True, observer=True),

    "Partitioning.__is_static": dict(
        pure=True, ensures=[("def", "result == (part.data == 'uniform_shape' or part.data == 'nway_shape')")]),

    "Partitioning.__nway_after_dyn": dict(
        pure=True,
        ensures=[("iff", "result == any((not is_static(parts[i])) and parts[j].data == 'nway_shape' "
                         "              for j in range(len(parts)) for i in range(j))")],
        loops={0: dict(idx="k",
                       inv=[("dyn", "dyn == any(not is_static(parts[t]) for t in range(k))"),
                            ("none_so_far", "not any((not is_static(parts[i])) and parts[j].data == 'nway_shape' "
                                            "        for j in range(k) for i in range(j))")])},
    ),

    "Partitioning.__check_flatten": dict(
        kinds={"part_ranks": "Tuple[str, ...]", "all_parts": "Dict[Tuple[str, ...], List[Tree]]", "all_ranks": "Set[str]"},
        requires=["part_ranks in all_parts"],
        pure=True,
        raises={"ValueError": "flatten_violation(self, part_ranks, all_parts, all_ranks)"},
        loops={
            0: dict(idx="k0", modifies=["ops[]"],
                    inv=[("not_yet", "not flatten and all(all_parts[part_ranks][j].data != 'flatten' for j in range(k0))")]),
            1: dict(idx="k1",
                    inv=[("no_index_math_so_far",
                          "all(len(self.coord_math.get_all_exprs(part_ranks[j].lower())) <= 1 for j in range(k1))")]),
            2: dict(idx="k2",
                    inv=[("ok_so_far", "all(not bad_flatten_rank(self, part_ranks[j], all_parts, all_ranks) for j in range(k2))")]),
        },
    ),
}
