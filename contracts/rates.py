"""Sidecar contracts for C14: the rates a component time divides by are the ones the architecture declares -
clock frequency of the configuration the Einsum runs on, the memory's own bandwidth attribute, the component's
instance count as handed over by the level that declares it."""

MODULES = {"Hardware": "teaal/ir/hardware.py", "Component": "teaal/ir/component.py",
           "MemoryComponent": "teaal/ir/component.py"}

OBJ_CLASSES = {
    "Hardware": {"configs": "Dict[str, str]", "tree": "Dict[str, LevelO]", "bindings": "BindingsO",
                 "program": "ProgramO", "components": "Dict[str, Any]"},
    "Component": {"name": "str", "num_instances": "int", "bindings": "Dict[str, List[Any]]"},
    "MemoryComponent": {"name": "str", "num_instances": "int", "bindings": "Dict[str, List[Any]]",
                        "bandwidth": "Optional[int]", "tensor_bindings": "Dict[str, Any]"},
}
BASES = {"MemoryComponent": ["Component"], "Component": []}
ASSUMPTIONS = ["assumed observer: Level.get_attr(attr) (attribute dictionary of the level as parsed)"]

CONTRACTS = {
    "LevelO.get_attr": dict(params=["self", "attr"], returns="Any", assumed=True, observer=True),
    "LevelO.get_name": dict(params=["self"], returns="str", assumed=True, observer=True),

    "Hardware.get_config": dict(
        requires=["einsum in self.configs"],
        modifies=[],
        ensures=[("config_of_the_einsum", "result == self.configs[einsum]")],
    ),
    "Hardware.get_frequency": dict(
        requires=["einsum in self.configs", "self.configs[einsum] in self.tree"],
        modifies=[],
        raises={"ValueError": "self.tree[self.configs[einsum]].get_attr('clock_frequency') is None or "
                              "isinstance(self.tree[self.configs[einsum]].get_attr('clock_frequency'), str)"},
        ensures=[("clock_of_the_einsums_own_configuration",
                  "result == self.tree[self.configs[einsum]].get_attr('clock_frequency')")],
    ),
    "Component.__init__": dict(
        modifies=["self.name", "self.num_instances", "self.bindings"],
        ensures=[("instances_as_given_by_the_level", "self.num_instances == num_instances"), "self.name == name"],
    ),
    "Component.get_num_instances": dict(
        modifies=[],
        ensures=[("declared_instance_count", "result == self.num_instances")],
    ),
    "MemoryComponent.get_bandwidth": dict(
        modifies=[],
        raises={"ValueError": "self.bandwidth is None"},
        ensures=[("declared_bandwidth", "result == self.bandwidth")],
    ),
}
