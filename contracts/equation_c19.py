"""C19 view of ir Equation.__build_einsum_ranks: besides the raise-iff of C18, the order of the default ranks
(output ranks as written first, then the ranks of the first term in that term's order)."""
from contracts.equation import all_terms, out_ranks_of, term_rank     # noqa: F401  (spec functions re-exported)

CONTRACTS = {
    "Equation.__build_einsum_ranks": dict(
        modifies=["self.einsum_ranks"],
        requires=["len(all_terms(self.equation)) > 0"],
        raises={"ValueError": "any(TRC(all_terms(self.equation)[j]) != TRC(all_terms(self.equation)[0]) "
                              "    for j in range(1, len(all_terms(self.equation))))"},
        ghost_entry="g_src = []\ng_at = []\n",
        ghost_after={"self.einsum_ranks = Equation.__get_tensor_ranks(output_ranks)": "g_out = self.einsum_ranks.copy()\n",
                     "self.einsum_ranks.append(rank)": "g_src = g_src + [k1]\n",
                     # where the rank of the first term sits in the result (explicit witness instead of `in`)
                     "if rank not in self.einsum_ranks": "g_at = g_at + [self.einsum_ranks.index(rank)]\n"},
        ensures_env="exit",
        ensures=[("output_ranks_first", "self.einsum_ranks[:len(g_out)] == g_out"),
                 ("output_as_written_first",
                  "all(self.einsum_ranks[term_off(out_ranks_of(self), i) + a] == term_rank(out_ranks_of(self).children[i].children[a]) "
                  "    for i in range(len(out_ranks_of(self).children)) for a in range(len(out_ranks_of(self).children[i].children)))"),
                 ("all_term_ranks_present", "len(g_at) == len(term_ranks) and "
                                            "all(0 <= g_at[j] and g_at[j] < len(self.einsum_ranks) and self.einsum_ranks[g_at[j]] == term_ranks[j] "
                                            "    for j in range(len(term_ranks)))"),
                 ("rest_from_first_term", "seq_key(term_ranks) == TRK(all_terms(self.equation)[0])"),
                 ("rest_in_order_of_first_term",
                  "len(self.einsum_ranks) == len(g_out) + len(g_src) and "
                  "all(0 <= g_src[t] and g_src[t] < len(term_ranks) and "
                  "    self.einsum_ranks[len(g_out) + t] == term_ranks[g_src[t]] and term_ranks[g_src[t]] not in g_out "
                  "    for t in range(len(g_src))) and "
                  "all(g_src[t] < g_src[u] for u in range(len(g_src)) for t in range(u))")],
        loops={
            0: dict(idx="k",
                    inv=[("same_so_far", "all(TRC(all_terms(self.equation)[j]) == TRC(all_terms(self.equation)[0]) for j in range(1, 1 + k))"),
                         ("first", "Counter(term_ranks) == TRC(all_terms(self.equation)[0])")]),
            1: dict(idx="k1", modifies=["self.einsum_ranks[]"],
                    ghost_vars=["g_src", "g_at"],
                    inv=[("prefix", "self.einsum_ranks[:len(g_out)] == g_out and len(self.einsum_ranks) >= len(g_out)"),
                         ("order", "len(self.einsum_ranks) == len(g_out) + len(g_src) and "
                                   "all(0 <= g_src[t] and g_src[t] < k1 and "
                                   "    self.einsum_ranks[len(g_out) + t] == term_ranks[g_src[t]] and term_ranks[g_src[t]] not in g_out "
                                   "    for t in range(len(g_src))) and "
                                   "all(g_src[t] < g_src[u] for u in range(len(g_src)) for t in range(u))"),
                         ("present", "len(g_at) == k1 and all(0 <= g_at[j] and g_at[j] < len(self.einsum_ranks) and "
                                     "self.einsum_ranks[g_at[j]] == term_ranks[j] for j in range(k1))"),
                         ("own", "not same_ref(self.einsum_ranks, term_ranks) and not same_ref(self.einsum_ranks, g_out)")]),
        },
    ),
}
