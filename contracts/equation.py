"""Sidecar contracts for teaal/ir/equation.py (class Equation of the IR) - properties C18 (legality guards) and
C19 (default ranks in the order written). lark trees are opaque: observers with assumed contracts."""

MODULES = {"Equation": "teaal/ir/equation.py", "ParseUtils": None}

OPAQUE_ATTRS = {
    "Tree": {"data": "str", "children": "List[Tree]"},
    "Token": {"value": "str"},
}

OBJ_CLASSES = {
    "Equation": {
        "equation": "Tree", "tensors": "Dict[str, Tensor]", "einsum_ranks": "List[str]",
        "es_trees": "List[Tree]", "es_tensors": "List[Tensor]", "active": "Dict[str, bool]",
        "term_tensors": "List[List[str]]", "term_vars": "List[List[str]]",
        "factor_order": "Dict[str, Any]", "in_update": "List[List[bool]]",
    },
}

ASSUMPTIONS = [
    "assumed lark contracts: Tree.find_data(d) yields exactly the subtrees whose .data == d (as a list, in lark's "
    "iteration order: deeper subtrees first, document order at equal depth); Tree.data / Tree.children / "
    "ParseUtils.next_str are heap-independent observers; next() of a fresh generator is its first element",
    "index terms of a `ranks` tree: children are `iplus` trees whose children are `ijust(NAME)` or "
    "`itimes(NUMBER, NAME)` trees (the grammar of teaal/parse/equation.py; parser acceptance itself is C17)",
]

# document position of the first term of the i-th index expression of a `ranks` tree (defined by unfolding)
RECFUN = {
    "term_off": {"params": ["ranks", "i"], "returns": "int",
                 "base": "0", "step": "term_off(ranks, i) + len(ranks.children[i].children)"},
}


def term_rank(t):
    """the rank named by one index term, as written: NAME of `ijust`, NAME (second child) of `itimes`"""
    return (ParseUtils.next_str(t).upper() if t.data == "ijust" else str(t.children[1]).upper())


# ghost witnesses recomputed from the result when the real function is run natively (the ghost appends cannot be
# interleaved with CPython's execution): first position, in document order, at which each returned rank occurs
_NATIVE_WITNESS = """
g_wi = []
g_wp = []
for _x in result:
    _w = [(i, p) for i, a in enumerate(term.find_data('ranks')) for p in range(ATL(a)) if ATR(a, p) == _x]
    g_wi.append(_w[0][0] if _w else -1)
    g_wp.append(_w[0][1] if _w else -1)
"""

_OBS = dict(assumed=True, observer=True)
CONTRACTS = {
    "Tree.find_data": dict(params=["self", "data"], returns="List[Tree]",
                           ensures=[("data", "all(t.data == data for t in result)")], **_OBS),
    "ParseUtils.next_str": dict(params=["tree"], returns="str", **_OBS),

    # ------------------------------------------------------------------ C18 guards
    "Equation.__get_tensor": dict(
        pure=True,
        raises={"ValueError": "ParseUtils.next_str(tensor) not in self.tensors"},
        ensures=[("declared_object", "same_ref(result, self.tensors[ParseUtils.next_str(tensor)])")],
    ),
    "Equation.__build_tensors_trees": dict(
        modifies=["self.es_trees", "self.es_tensors", "*.is_output"],
        raises={"ValueError":
                "ParseUtils.next_str(next(self.equation.find_data('output'))) not in self.tensors or "
                "any(ParseUtils.next_str(t) not in self.tensors for t in self.equation.find_data('tensor'))"},
        ensures=[
            ("output_first", "len(self.es_tensors) == 1 + len(self.equation.find_data('tensor')) and "
                             "same_ref(self.es_tensors[0], self.tensors[ParseUtils.next_str(next(self.equation.find_data('output')))])"),
            ("operands_in_order",
             "all(same_ref(self.es_tensors[1 + j], self.tensors[ParseUtils.next_str(self.equation.find_data('tensor')[j])]) "
             "    for j in range(len(self.equation.find_data('tensor'))))"),
        ],
        loops={0: dict(idx="k", modifies=["self.es_trees[]", "self.es_tensors[]"],
                       inv=[("declared_so_far", "all(ParseUtils.next_str(self.equation.find_data('tensor')[j]) in self.tensors "
                                                "    for j in range(k))"),
                            ("len", "len(self.es_tensors) == 1 + k"),
                            ("first", "same_ref(self.es_tensors[0], self.tensors[ParseUtils.next_str(next(self.equation.find_data('output')))])"),
                            ("so_far", "all(same_ref(self.es_tensors[1 + j], self.tensors[ParseUtils.next_str(self.equation.find_data('tensor')[j])]) "
                                       "    for j in range(k))"),
                            ("own_lists", "fresh(self.es_tensors) and fresh(self.es_trees) and not same_ref(self.es_tensors, self.es_trees)"),
                            ])},
    ),
    "Equation.__build_active_tensors": dict(
        kinds={},
        modifies=["self.active"],
        raises={"ValueError": "any(self.es_tensors[i].name == self.es_tensors[j].name "
                              "    for j in range(len(self.es_tensors)) for i in range(j))"},
        ensures=[
            ("used_are_active", "all(self.active[t.name] for t in self.es_tensors)"),
            ("declared_have_flag", "all(n in self.active for n in self.tensors)"),
        ],
        loops={0: dict(idx="k", modifies=["self.active[]"],
                       inv=[("keys", "forall(lambda x: (x in self.active) == any(self.es_tensors[j].name == x for j in range(k)))"),
                            ("true", "all(self.active[self.es_tensors[j].name] for j in range(k))"),
                            ("distinct_so_far", "all(self.es_tensors[i].name != self.es_tensors[j].name for j in range(k) for i in range(j))"),
                            ("own", "fresh(self.active)")]),
               1: dict(idx="k1", modifies=["self.active[]"], enum="roots",
                       inv=[("used_are_keys", "all(t.name in self.active for t in self.es_tensors)"),
                            ("true", "all(self.active[t.name] for t in self.es_tensors)"),
                            ("keys", "all(roots[j] in self.active for j in range(k1))"),
                            ("own", "fresh(self.active)")])},
    ),

    # ------------------------------------------------------------------ C19: ranks in the order written
    "Equation.__get_tensor_ranks": dict(
        pure=True, fresh_result=True,
        naming=[("named", "len(result) == ATL(ranks) and all(result[p] == ATR(ranks, p) for p in range(len(result)))")],
        ensures=[
            ("count", "len(result) == term_off(ranks, len(ranks.children))"),
            ("document_order",
             "all(result[term_off(ranks, i) + a] == term_rank(ranks.children[i].children[a]) "
             "    for i in range(len(ranks.children)) for a in range(len(ranks.children[i].children)))"),
        ],
        ghost_entry="unfold(term_off, ranks, 0)\n",
        loops={
            0: dict(idx="ko",
                    inv=[("len", "len(str_ranks) == term_off(ranks, ko)"),
                         ("done", "all(str_ranks[term_off(ranks, i) + a] == term_rank(ranks.children[i].children[a]) "
                                  "    for i in range(ko) for a in range(len(ranks.children[i].children)))"),
                         ("offsets_monotone", "all(term_off(ranks, i) + len(ranks.children[i].children) <= term_off(ranks, ko) for i in range(ko))")],
                    ghost_step="unfold(term_off, ranks, ko - 1)\n"),
            1: dict(idx="ki",
                    inv=[("len", "len(str_ranks) == term_off(ranks, ko) + ki"),
                         ("done", "all(str_ranks[term_off(ranks, i) + a] == term_rank(ranks.children[i].children[a]) "
                                  "    for i in range(ko) for a in range(len(ranks.children[i].children)))"),
                         ("current", "all(str_ranks[term_off(ranks, ko) + a] == term_rank(ranks.children[ko].children[a]) for a in range(ki))"),
                         ("offsets_monotone", "all(term_off(ranks, i) + len(ranks.children[i].children) <= term_off(ranks, ko) for i in range(ko))")]),
        },
    ),
}


# ---------------------------------------------------------------- native side
def native_globals():
    from collections import Counter
    from teaal.parse.utils import ParseUtils
    from teaal.ir.equation import Equation

    def atl(ranks):
        return len(Equation._Equation__get_tensor_ranks(ranks))

    def atr(ranks, p):
        return Equation._Equation__get_tensor_ranks(ranks)[p]

    def trk(term):          # first appearance over the accesses of the term, computed independently of the code
        out = []
        for r in term.find_data("ranks"):
            for x in Equation._Equation__get_tensor_ranks(r):
                if x not in out:
                    out.append(x)
        return tuple(out)
    return {"ParseUtils": ParseUtils, "ATL": atl, "ATR": atr, "TRK": trk, "TRC": lambda t: Counter(trk(t))}




_EINSUMS = [
    "Z[m] = A[k, m]",
    "Z[m, n] = A[k, m] * B[k, n]",
    "Z[m] = A[2*k, j] * B[j, k] * C[m]",
    "O[q] = I[q + s] * F[s]",
    "O[q] = I[2*q + s, 3*r] * F[s, r]",
    "O[p, q] = I[p + 2*r, s + q] * F[r, s]",
    "Z[] = A[i] * B[i]",
    "Z[m] = take(A[k, m], B[k], 0)",
    "Z[i] = A[i, 4*j, k] + B[i, k, j]",
]


def _gen_tensor_ranks():
    from teaal.parse.equation import EquationParser
    for e in _EINSUMS:
        tree = EquationParser.parse(e)
        for ranks in tree.find_data("ranks"):
            yield None, (ranks,)


def _gen_term_ranks():
    from teaal.parse.equation import EquationParser
    for e in _EINSUMS + ["Z[m] = A[k, m] * B[m, k, j] * C[j, n, k]", "Z[a] = A[b, a, c] * B[c, d] * C[d, b, e]"]:
        tree = EquationParser.parse(e)
        for term in list(tree.find_data("times")) + list(tree.find_data("take")):
            yield None, (term,)


GEN = {"Equation.__get_tensor_ranks": _gen_tensor_ranks, "Equation.__get_term_ranks": _gen_term_ranks}


# ---------------------------------------------------------------- C18: terms over different rank sets
UF = {"TRC": (["V"], "V"),      # Counter of the ranks of one term (abstract value determined by the term)
      "TRK": (["V"], "V"),      # the ranks of one term as a sequence (abstract key determined by the term)
      "ATL": (["V"], "Int"),    # number of ranks of one access  (= len(__get_tensor_ranks(ranks)))
      "ATR": (["V", "Int"], "Str")}   # p-th rank of one access   (= __get_tensor_ranks(ranks)[p])

AXIOMS = ["forall(lambda x: ATL(x) >= 0)"]


def lex_lt(i, p, j, q):
    return i < j or (i == j and p < q)


def accs_of(term):
    return term.find_data("ranks")


def out_ranks_of(eq):
    return next(next(eq.equation.find_data("output")).find_data("ranks"))


def all_terms(eq):
    return eq.find_data("times") + eq.find_data("take")


CONTRACTS.update({
    # first-appearance order across the accesses of one term (C19): the body is proved against a specification in
    # terms of ATL / ATR (length / p-th rank of one access as returned by __get_tensor_ranks, itself proved to be the
    # document order); witnesses are ghost lists (access index, position) appended next to the real append
    "Equation.__get_term_ranks": dict(
        pure=True, fresh_result=True,
        naming=[("multiset", "Counter(result) == TRC(term)"), ("sequence", "seq_key(result) == TRK(term)")],
        ghost_exit_native=_NATIVE_WITNESS,
        ghost_entry="g_wi = []\ng_wp = []\n",
        ghost_after={"term_ranks.append(rank)": "g_wi = g_wi + [ko]\ng_wp = g_wp + [ki]\n"},
        ensures_env="exit",
        ensures=[
            ("witnessed", "len(g_wi) == len(result) and len(g_wp) == len(result) and "
                          "all(0 <= g_wi[t] and g_wi[t] < len(accs_of(term)) and 0 <= g_wp[t] and g_wp[t] < ATL(accs_of(term)[g_wi[t]]) "
                          "    and result[t] == ATR(accs_of(term)[g_wi[t]], g_wp[t]) for t in range(len(result)))"),
            ("first_appearance", "all(implies(lex_lt(i, p, g_wi[t], g_wp[t]), ATR(accs_of(term)[i], p) != result[t]) "
                                 "    for t in range(len(result)) for i in range(len(accs_of(term))) for p in range(ATL(accs_of(term)[i])))"),
            ("in_order_of_first_appearance", "all(lex_lt(g_wi[t], g_wp[t], g_wi[u], g_wp[u]) for u in range(len(result)) for t in range(u))"),
            ("complete", "all(ATR(accs_of(term)[i], p) in result for i in range(len(accs_of(term))) for p in range(ATL(accs_of(term)[i])))"),
            ("no_duplicates", "all(result[t] != result[u] for u in range(len(result)) for t in range(u))"),
        ],
        loops={
            0: dict(idx="ko", modifies=["term_ranks[]"], ghost_vars=["g_wi", "g_wp"],
                    inv=[("lens", "len(g_wi) == len(term_ranks) and len(g_wp) == len(term_ranks)"),
                         ("witnessed", "all(0 <= g_wi[t] and g_wi[t] < ko and 0 <= g_wp[t] and g_wp[t] < ATL(accs_of(term)[g_wi[t]]) "
                                       "    and term_ranks[t] == ATR(accs_of(term)[g_wi[t]], g_wp[t]) for t in range(len(term_ranks)))"),
                         ("first", "all(implies(lex_lt(i, p, g_wi[t], g_wp[t]), ATR(accs_of(term)[i], p) != term_ranks[t]) "
                                   "    for t in range(len(term_ranks)) for i in range(len(accs_of(term))) for p in range(ATL(accs_of(term)[i])))"),
                         ("order", "all(lex_lt(g_wi[t], g_wp[t], g_wi[u], g_wp[u]) for u in range(len(term_ranks)) for t in range(u))"),
                         ("complete", "all(ATR(accs_of(term)[i], p) in term_ranks for i in range(ko) for p in range(ATL(accs_of(term)[i])))"),
                         ("nodup", "all(term_ranks[t] != term_ranks[u] for u in range(len(term_ranks)) for t in range(u))"),
                         ("own", "fresh(term_ranks)")]),
            1: dict(idx="ki", enum="cur", modifies=["term_ranks[]"], ghost_vars=["g_wi", "g_wp"],
                    inv=[("cur", "len(cur) == ATL(accs_of(term)[ko]) and all(cur[p] == ATR(accs_of(term)[ko], p) for p in range(len(cur))) "
                                 "and not same_ref(cur, term_ranks)"),
                         ("lens", "len(g_wi) == len(term_ranks) and len(g_wp) == len(term_ranks)"),
                         ("witnessed", "all(0 <= g_wi[t] and 0 <= g_wp[t] and lex_lt(g_wi[t], g_wp[t], ko, ki) and g_wp[t] < ATL(accs_of(term)[g_wi[t]]) "
                                       "    and term_ranks[t] == ATR(accs_of(term)[g_wi[t]], g_wp[t]) for t in range(len(term_ranks)))"),
                         ("first", "all(implies(lex_lt(i, p, g_wi[t], g_wp[t]), ATR(accs_of(term)[i], p) != term_ranks[t]) "
                                   "    for t in range(len(term_ranks)) for i in range(len(accs_of(term))) for p in range(ATL(accs_of(term)[i])))"),
                         ("order", "all(lex_lt(g_wi[t], g_wp[t], g_wi[u], g_wp[u]) for u in range(len(term_ranks)) for t in range(u))"),
                         ("complete", "all(ATR(accs_of(term)[i], p) in term_ranks for i in range(ko) for p in range(ATL(accs_of(term)[i]))) and "
                                      "all(ATR(accs_of(term)[ko], p) in term_ranks for p in range(ki))"),
                         ("nodup", "all(term_ranks[t] != term_ranks[u] for u in range(len(term_ranks)) for t in range(u))"),
                         ("own", "fresh(term_ranks)")]),
        },
    ),
    "Equation.__build_einsum_ranks": dict(
        modifies=["self.einsum_ranks"],
        requires=["len(all_terms(self.equation)) > 0"],
        raises={"ValueError": "any(TRC(all_terms(self.equation)[j]) != TRC(all_terms(self.equation)[0]) "
                              "    for j in range(1, len(all_terms(self.equation))))"},
        loops={
            0: dict(idx="k",
                    inv=[("same_so_far", "all(TRC(all_terms(self.equation)[j]) == TRC(all_terms(self.equation)[0]) for j in range(1, 1 + k))"),
                         ("first", "Counter(term_ranks) == TRC(all_terms(self.equation)[0])")]),
            1: dict(idx="k1", modifies=["self.einsum_ranks[]"], inv=[]),
        },
    ),
})
