"""Sidecar contracts for teaal/ir/equation.py (class Equation of the IR) - properties C18 (legality guards) and
C19 (default ranks in the order written). lark trees are opaque: observers with assumed contracts."""

MODULES = {"Equation": "teaal/ir/equation.py", "ParseUtils": None}

OPAQUE_ATTRS = {
    "Tree": {"data": "str", "children": "List[Tree]"},
    "Token": {"value": "str"},
}

OBJ_CLASSES = {
    "Equation": {
        "equation": "Tree", "tensors": "Dict[str, Tensor]", "einsum_ranks": "List[str]",
        "es_trees": "List[Tree]", "es_tensors": "List[Tensor]", "active": "Dict[str, bool]",
        "term_tensors": "List[List[str]]", "term_vars": "List[List[str]]",
        "factor_order": "Dict[str, Any]", "in_update": "List[List[bool]]",
    },
}

ASSUMPTIONS = [
    "assumed lark contracts: Tree.find_data(d) yields exactly the subtrees whose .data == d (as a list, in lark's "
    "iteration order: deeper subtrees first, document order at equal depth); Tree.data / Tree.children / "
    "ParseUtils.next_str are heap-independent observers; next() of a fresh generator is its first element",
    "index terms of a `ranks` tree: children are `iplus` trees whose children are `ijust(NAME)` or "
    "`itimes(NUMBER, NAME)` trees (the grammar of teaal/parse/equation.py; parser acceptance itself is C17)",
]

# document position of the first term of the i-th index expression of a `ranks` tree (defined by unfolding)
RECFUN = {
    "term_off": {"params": ["ranks", "i"], "returns": "int",
                 "base": "0", "step": "term_off(ranks, i) + len(ranks.children[i].children)"},
}


def term_rank(t):
    """the rank named by one index term, as written: NAME of `ijust`, NAME (second child) of `itimes`"""
    return (ParseUtils.next_str(t).upper() if t.data == "ijust" else str(t.children[1]).upper())


_OBS = dict(assumed=True, observer=True)
CONTRACTS = {
    "Tree.find_data": dict(params=["self", "data"], returns="List[Tree]",
                           ensures=[("data", "all(t.data == data for t in result)")], **_OBS),
    "ParseUtils.next_str": dict(params=["tree"], returns="str", **_OBS),

    # ------------------------------------------------------------------ C18 guards
    "Equation.__get_tensor": dict(
        pure=True,
        raises={"ValueError": "ParseUtils.next_str(tensor) not in self.tensors"},
        ensures=[("declared_object", "same_ref(result, self.tensors[ParseUtils.next_str(tensor)])")],
    ),
    "Equation.__build_tensors_trees": dict(
        modifies=["self.es_trees", "self.es_tensors", "*.is_output"],
        raises={"ValueError":
                "ParseUtils.next_str(next(self.equation.find_data('output'))) not in self.tensors or "
                "any(ParseUtils.next_str(t) not in self.tensors for t in self.equation.find_data('tensor'))"},
        ensures=[
            ("output_first", "len(self.es_tensors) == 1 + len(self.equation.find_data('tensor')) and "
                             "same_ref(self.es_tensors[0], self.tensors[ParseUtils.next_str(next(self.equation.find_data('output')))])"),
            ("operands_in_order",
             "all(same_ref(self.es_tensors[1 + j], self.tensors[ParseUtils.next_str(self.equation.find_data('tensor')[j])]) "
             "    for j in range(len(self.equation.find_data('tensor'))))"),
        ],
        loops={0: dict(idx="k", modifies=["self.es_trees[]", "self.es_tensors[]"],
                       inv=[("declared_so_far", "all(ParseUtils.next_str(self.equation.find_data('tensor')[j]) in self.tensors "
                                                "    for j in range(k))"),
                            ("len", "len(self.es_tensors) == 1 + k"),
                            ("first", "same_ref(self.es_tensors[0], self.tensors[ParseUtils.next_str(next(self.equation.find_data('output')))])"),
                            ("so_far", "all(same_ref(self.es_tensors[1 + j], self.tensors[ParseUtils.next_str(self.equation.find_data('tensor')[j])]) "
                                       "    for j in range(k))"),
                            ("own_lists", "fresh(self.es_tensors) and fresh(self.es_trees) and not same_ref(self.es_tensors, self.es_trees)"),
                            ])},
    ),
    "Equation.__build_active_tensors": dict(
        kinds={},
        modifies=["self.active"],
        raises={"ValueError": "any(self.es_tensors[i].name == self.es_tensors[j].name "
                              "    for j in range(len(self.es_tensors)) for i in range(j))"},
        ensures=[
            ("used_are_active", "all(self.active[t.name] for t in self.es_tensors)"),
            ("declared_have_flag", "all(n in self.active for n in self.tensors)"),
        ],
        loops={0: dict(idx="k", modifies=["self.active[]"],
                       inv=[("keys", "forall(lambda x: (x in self.active) == any(self.es_tensors[j].name == x for j in range(k)))"),
                            ("true", "all(self.active[self.es_tensors[j].name] for j in range(k))"),
                            ("distinct_so_far", "all(self.es_tensors[i].name != self.es_tensors[j].name for j in range(k) for i in range(j))"),
                            ("own", "fresh(self.active)")]),
               1: dict(idx="k1", modifies=["self.active[]"], enum="roots",
                       inv=[("used_are_keys", "all(t.name in self.active for t in self.es_tensors)"),
                            ("true", "all(self.active[t.name] for t in self.es_tensors)"),
                            ("keys", "all(roots[j] in self.active for j in range(k1))"),
                            ("own", "fresh(self.active)")])},
    ),

    # ------------------------------------------------------------------ C19: ranks in the order written
    "Equation.__get_tensor_ranks": dict(
        pure=True, fresh_result=True,
        ensures=[
            ("count", "len(result) == term_off(ranks, len(ranks.children))"),
            ("document_order",
             "all(result[term_off(ranks, i) + a] == term_rank(ranks.children[i].children[a]) "
             "    for i in range(len(ranks.children)) for a in range(len(ranks.children[i].children)))"),
        ],
        ghost_entry="unfold(term_off, ranks, 0)\n",
        loops={
            0: dict(idx="ko",
                    inv=[("len", "len(str_ranks) == term_off(ranks, ko)"),
                         ("done", "all(str_ranks[term_off(ranks, i) + a] == term_rank(ranks.children[i].children[a]) "
                                  "    for i in range(ko) for a in range(len(ranks.children[i].children)))"),
                         ("offsets_monotone", "all(term_off(ranks, i) + len(ranks.children[i].children) <= term_off(ranks, ko) for i in range(ko))")],
                    ghost_step="unfold(term_off, ranks, ko - 1)\n"),
            1: dict(idx="ki",
                    inv=[("len", "len(str_ranks) == term_off(ranks, ko) + ki"),
                         ("done", "all(str_ranks[term_off(ranks, i) + a] == term_rank(ranks.children[i].children[a]) "
                                  "    for i in range(ko) for a in range(len(ranks.children[i].children)))"),
                         ("current", "all(str_ranks[term_off(ranks, ko) + a] == term_rank(ranks.children[ko].children[a]) for a in range(ki))"),
                         ("offsets_monotone", "all(term_off(ranks, i) + len(ranks.children[i].children) <= term_off(ranks, ko) for i in range(ko))")]),
        },
    ),
}


# ---------------------------------------------------------------- native side
def native_globals():
    from teaal.parse.utils import ParseUtils
    return {"ParseUtils": ParseUtils}


_EINSUMS = [
    "Z[m] = A[k, m]",
    "Z[m, n] = A[k, m] * B[k, n]",
    "Z[m] = A[2*k, j] * B[j, k] * C[m]",
    "O[q] = I[q + s] * F[s]",
    "O[q] = I[2*q + s, 3*r] * F[s, r]",
    "O[p, q] = I[p + 2*r, s + q] * F[r, s]",
    "Z[] = A[i] * B[i]",
    "Z[m] = take(A[k, m], B[k], 0)",
    "Z[i] = A[i, 4*j, k] + B[i, k, j]",
]


def _gen_tensor_ranks():
    from teaal.parse.equation import EquationParser
    for e in _EINSUMS:
        tree = EquationParser.parse(e)
        for ranks in tree.find_data("ranks"):
            yield None, (ranks,)


GEN = {"Equation.__get_tensor_ranks": _gen_tensor_ranks}


# ---------------------------------------------------------------- C18: terms over different rank sets
UF = {"TRC": (["V"], "V"),      # Counter of the ranks of one term (abstract value determined by the term)
      "TRK": (["V"], "V")}      # the ranks of one term as a sequence (abstract key determined by the term)


def out_ranks_of(eq):
    return next(next(eq.equation.find_data("output")).find_data("ranks"))


def all_terms(eq):
    return eq.find_data("times") + eq.find_data("take")


CONTRACTS.update({
    "Equation.__get_term_ranks": dict(
        pure=True, fresh_result=True, assumed_body=True,
        ensures=[("multiset", "Counter(result) == TRC(term)"), ("sequence", "seq_key(result) == TRK(term)")],
    ),
    "Equation.__build_einsum_ranks": dict(
        modifies=["self.einsum_ranks"],
        requires=["len(all_terms(self.equation)) > 0"],
        raises={"ValueError": "any(TRC(all_terms(self.equation)[j]) != TRC(all_terms(self.equation)[0]) "
                              "    for j in range(1, len(all_terms(self.equation))))"},
        loops={
            0: dict(idx="k",
                    inv=[("same_so_far", "all(TRC(all_terms(self.equation)[j]) == TRC(all_terms(self.equation)[0]) for j in range(1, 1 + k))"),
                         ("first", "Counter(term_ranks) == TRC(all_terms(self.equation)[0])")]),
            1: dict(idx="k1", modifies=["self.einsum_ranks[]"], inv=[]),
        },
    ),
})
