"""Sidecar contracts for C12: the two places that spell a trace name agree on its format.
Collector.set_collecting emits Metrics.trace(<rank>, type_=<label>, ...), which makes the run-time write
<prefix>-<rank>-<label>.csv; Collector.__get_trace names the file the traffic model reads. Both are proved against ONE
specification function of the label (`label_of`), so a change to either spelling fails its own postcondition.
(Whether a registration with matching arguments is actually emitted for every consumed name is the bounded half.)"""
from contracts.spacetime import VAL_CLASSES as _VC, BASES as _B

MODULES = {"Collector": "teaal/trans/collector.py", "SBlock": "teaal/hifiber/stmt.py"}
VAL_CLASSES = dict(_VC)
VAL_CLASSES.update({
    "EString": {"fields": [("string", "str")], "getters": {}},
    "EBool": {"fields": [("bool", "bool")], "getters": {}},
})
BASES = dict(_B)
BASES.update({"EString": ["Expression"], "EBool": ["Expression"]})
OBJ_CLASSES = {
    "Collector": {"program": "ProgramT", "metrics": "MetricsT", "fusion": "FusionT"},
    "SBlock": {"stmts": "List[Any]"},
}
ASSUMPTIONS = [
    "assumed observers: Metrics.get_fiber_trace(tensor, rank, is_read) (the single source of lazy trace labels), "
    "Metrics.get_hardware().get_prefix(einsum), Program.get_equation().get_output().root_name()",
    "the run-time writes the trace registered by Metrics.trace(rank, type_=label) to <prefix>-<rank>-<label>.csv "
    "(fibertree behaviour, not teaal code)",
    "Collector.set_collecting: the iteration-counter initialisation of a written eager trace (a Tensor is built and "
    "partitioned there) is abstracted; it adds one assignment statement before the registration",
]
_OBS = dict(assumed=True, observer=True)


def label_of(metrics, tensor, rank, type_, is_read):
    """the trace label of (tensor, rank, type): 'iter' without a tensor, the fiber trace for type 'fiber', else the
    eager label of the subtree rooted at `type_`"""
    return ("iter" if tensor is None else
            (metrics.get_fiber_trace(tensor, rank, is_read) if type_ == "fiber" else
             "eager_" + tensor.lower() + "_" + type_.lower() + ("_read" if is_read else "_write")))


def prefix_of(c, binding):
    return c.metrics.get_hardware().get_prefix(c.program.get_equation().get_output().root_name()) + "-" + binding["rank"] + "-"


def is_eager(binding):
    return "style" in binding and binding["style"] == "eager"


def filtered(c, binding, is_read):
    """a lazy payload binding whose label is neither the iteration trace nor a get_payload trace is filtered"""
    return (not is_eager(binding) and binding["type"] == "payload"
            and c.metrics.get_fiber_trace(binding["tensor"], binding["rank"], is_read) != "iter"
            and not c.metrics.get_fiber_trace(binding["tensor"], binding["rank"], is_read).startswith("get_payload"))


def is_filter_call(s):
    """Traffic.filterTrace(<input>, <filter>, <output>)"""
    return (isinstance(s, SExpr) and isinstance(cast(SExpr, s).expr, EMethod)
            and cast(EMethod, cast(SExpr, s).expr).obj == EVar('Traffic')
            and cast(EMethod, cast(SExpr, s).expr).name == 'filterTrace'
            and len(cast(EMethod, cast(SExpr, s).expr).args) == 3)


def filter_args(s):
    return cast(EMethod, cast(SExpr, s).expr).args


def is_trace_call(s):
    """Metrics.trace(<rank>, type_=<label>, consumable=<bool>)"""
    return (isinstance(s, SExpr) and isinstance(cast(SExpr, s).expr, EMethod)
            and cast(EMethod, cast(SExpr, s).expr).obj == EVar('Metrics')
            and cast(EMethod, cast(SExpr, s).expr).name == 'trace'
            and len(cast(EMethod, cast(SExpr, s).expr).args) == 3)


def trace_args(s):
    return cast(EMethod, cast(SExpr, s).expr).args


def binding_label(c, binding, is_read):
    return label_of(c.metrics, binding["tensor"], binding["rank"], binding["root"] if is_eager(binding) else "fiber", is_read)


CONTRACTS = {
    "ProgramT.get_equation": dict(params=["self"], returns="EquationT", **_OBS),
    "EquationT.get_output": dict(params=["self"], returns="TensorT", **_OBS),
    "TensorT.root_name": dict(params=["self"], returns="str", **_OBS),
    "MetricsT.get_hardware": dict(params=["self"], returns="HardwareT", **_OBS),
    "HardwareT.get_prefix": dict(params=["self", "einsum"], returns="str", **_OBS),
    "MetricsT.get_fiber_trace": dict(params=["self", "tensor", "rank", "is_read_trace"], returns="str", **_OBS),
    "SBlock.__init__": dict(kinds={"stmts": "List[Any]"}, modifies=["self.stmts"], ensures=["same_ref(self.stmts, stmts)"]),
    "SBlock.add": dict(
        kinds={"stmt": "Any"},
        requires=["not same_ref(self, stmt)"],
        modifies=["self.stmts[]"],
        ensures=[("appends_or_splices",
                  "(isinstance(stmt, SBlock) and self.stmts == old(self.stmts) + old(cast(SBlock, stmt).stmts)) or "
                  "(not isinstance(stmt, SBlock) and self.stmts == old(self.stmts) + [stmt])")],
    ),

    # collaborators of the written-eager-trace branch of set_collecting (a scratch Tensor is partitioned to find the
    # innermost rank whose iteration counter is initialised): assumed, they write nothing of the Collector
    "EquationT.get_tensor": dict(params=["self", "name"], returns="TensorT", **_OBS),
    "TensorT.get_init_ranks": dict(params=["self"], returns="List[str]", **_OBS),
    "TensorT.get_ranks": dict(params=["self"], returns="List[str]", assumed=True, pure=True, fresh_result=True,
                              ensures=["len(result) > 0"]),
    "TensorT.__init__": dict(params=["self", "name", "ranks"], assumed=True, modifies=[], returns="None"),
    "ProgramT.apply_all_partitioning": dict(params=["self", "tensor"], assumed=True, modifies=[], returns="None"),
    "ProgramT.get_loop_order": dict(params=["self"], returns="LoopOrderT", **_OBS),
    "LoopOrderT.apply": dict(params=["self", "tensor"], assumed=True, modifies=[], returns="None"),

    "Collector.set_collecting": dict(
        aliases={"Tensor": "TensorT"},
        kinds={"tensor": "Optional[str]"},
        modifies=[],
        raises={"ValueError": "tensor is None and type_ != 'iter'"},
        ensures=[
            ("registers_exactly_one_trace_last",
             "len(result.stmts) >= 1 and is_trace_call(result.stmts[len(result.stmts) - 1]) and "
             "all(not is_trace_call(result.stmts[j]) for j in range(len(result.stmts) - 1))"),
            ("under_the_rank_and_the_label_of_the_request",
             "trace_args(result.stmts[len(result.stmts) - 1])[0] == AJust(EString(rank)) and "
             "trace_args(result.stmts[len(result.stmts) - 1])[1] == "
             "    AParam('type_', EString(label_of(self.metrics, tensor, rank, type_, is_read_trace))) and "
             "trace_args(result.stmts[len(result.stmts) - 1])[2] == AParam('consumable', EBool(consumable))"),
        ],
    ),
    "Collector.__get_trace": dict(
        kinds={"binding": "Dict[str, str]"},
        # `fiber` is the reserved trace type of lazy bindings: no rank (the `root` of an eager binding) is called that
        requires=["implies(is_eager(binding), binding['root'] != 'fiber')"],
        modifies=[],
        ensures=[
            ("eager_file_name_is_prefix_label_csv",
             "implies(is_eager(binding), result[0] == prefix_of(self, binding) + "
             "        label_of(self.metrics, binding['tensor'], binding['rank'], binding['root'], is_read) + '.csv')"),
            ("lazy_file_name_is_prefix_label_csv",
             "implies(not is_eager(binding) and not filtered(self, binding, is_read), result[0] == prefix_of(self, binding) + "
             "        label_of(self.metrics, binding['tensor'], binding['rank'], 'fiber', is_read) + '.csv')"),
            ("filtered_file_name_is_prefix_label_payload_csv",
             "implies(not is_eager(binding) and filtered(self, binding, is_read), result[0] == prefix_of(self, binding) + "
             "        label_of(self.metrics, binding['tensor'], binding['rank'], 'fiber', is_read) + '_payload.csv')"),
            ("filter_step_iff_filtered",
             "len(result[1].stmts) == (1 if filtered(self, binding, is_read) else 0)"),
            ("filter_reads_the_registered_trace_and_the_iteration_trace",
             "implies(filtered(self, binding, is_read), "
             "  is_filter_call(result[1].stmts[0]) and "
             "  filter_args(result[1].stmts[0])[0] == AJust(EString(prefix_of(self, binding) + "
             "      label_of(self.metrics, binding['tensor'], binding['rank'], 'fiber', is_read) + '.csv')) and "
             "  filter_args(result[1].stmts[0])[1] == AJust(EString(prefix_of(self, binding) + 'iter.csv')) and "
             "  filter_args(result[1].stmts[0])[2] == AJust(EString(result[0])))"),
        ],
    ),
}
