"""Sidecar contract for EquationParser.parse's post-parse normalisation (C17): per-visit lemmas.
(1) a `ranks` node whose only child is None (empty brackets) ends with no children; any other is left alone;
(2) an `itimes` node's coefficient becomes ONE token whose integer value is the written number with its sign:
    +n for pos(n), -n for neg(n).
lark trees are mutable objects here (data, children); which nodes find_data visits is lark's business (assumed)."""

MODULES = {"EquationParser": "teaal/parse/equation.py", "Lark": None}
OBJ_CLASSES = {"Tree": {"data": "str", "children": "List[Any]"},
               "EquationParser": {}}
CLASS_NAMES = ["Token"]
CLASS_ATTRS = {"EquationParser": {"parser": "Lark"}}
STR_CLASSES = {"Token": 1}        # Token(type, value) is a str equal to `value` (argument 1)
ASSUMPTIONS = [
    "assumed: EquationParser.parser.parse(text) returns a lark Tree (acceptance is the bounded grammar half of C17); "
    "Tree.find_data(name) lists nodes of the tree; Token(type, value) is a str equal to value; "
    "int(str(n)) == n for every integer n (CPython)",
]
AXIOMS = ["forall(lambda n: int(str(n)) == n)"]

CONTRACTS = {
    "Lark.parse": dict(params=["self", "text"], returns="Tree", assumed=True, modifies=[], raises={"LarkError": None}),
    "Tree.find_data": dict(params=["self", "data"], returns="List[Tree]", assumed=True, observer=True, frozen=False),
    "EquationParser.parse": dict(
        modifies=["*.children", "*[]"],
        raises={"LarkError": None, "AssertionError": None},
        ghost_after={
            "if ranks.children == [None]":
                "assert not (ranks.children == [None])\n",
            "assert isinstance(num, Tree)": "g_num = num\ng_digits = num.children[0]\ng_kind = num.data\n",
            "if num.data == 'pos'":
                "assert int(itimes.children[0]) == (int(g_digits) if g_kind == 'pos' else -int(g_digits))\n",
        },
        ensures=[],
    ),
}
