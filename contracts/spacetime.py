"""Sidecar contracts for C16 (emission level): the stamp and the access points attached to each activity.
HiFiber expression / argument nodes are value classes (constructor terms); SBlock is a mutable object (its `add`
is under contract as well), so the statement list a translator returns is the subject of the postcondition."""

MODULES = {"Canvas": "teaal/trans/canvas.py", "Graphics": "teaal/trans/graphics.py", "SBlock": "teaal/hifiber/stmt.py"}

_E = "Expression"
BASES = {c: ["Expression"] for c in ("EVar", "EInt", "ETuple", "EBinOp", "EAccess", "EMethod", "EFunc", "EDict")}
BASES.update({"Expression": [], "AParam": ["Argument"], "AJust": ["Argument"], "Argument": [],
              "OSub": ["Operator"], "OIn": ["Operator"], "OAdd": ["Operator"], "Operator": [],
              "AVar": ["Assignable"], "AAccess": ["Assignable"], "Assignable": [],
              "SAssign": ["Statement"], "SExpr": ["Statement"], "SIf": ["Statement"], "SIAssign": ["Statement"],
              "Statement": []})
VAL_CLASSES = {
    "Expression": {"fields": [], "getters": {}}, "Argument": {"fields": [], "getters": {}},
    "Operator": {"fields": [], "getters": {}}, "Assignable": {"fields": [], "getters": {}},
    "Statement": {"fields": [], "getters": {}},
    "OSub": {"fields": [], "getters": {}}, "OIn": {"fields": [], "getters": {}}, "OAdd": {"fields": [], "getters": {}},
    "EVar": {"fields": [("name", "str")], "getters": {}},
    "EInt": {"fields": [("int", "int")], "getters": {}},
    "ETuple": {"fields": [("elems", "List[Expression]")], "getters": {}},
    "EBinOp": {"fields": [("expr1", _E), ("op", "Operator"), ("expr2", _E)], "getters": {}},
    "EAccess": {"fields": [("obj", _E), ("ind", _E)], "getters": {}},
    "EMethod": {"fields": [("obj", _E), ("name", "str"), ("args", "List[Argument]")], "getters": {}},
    "EFunc": {"fields": [("name", "str"), ("args", "List[Argument]")], "getters": {}},
    "EDict": {"fields": [("dict", "Dict[Expression, Expression]")], "getters": {}},
    "AParam": {"fields": [("name", "str"), ("expr", _E)], "getters": {}},
    "AJust": {"fields": [("expr", _E)], "getters": {}},
    "AVar": {"fields": [("name", "str")], "getters": {}},
    "AAccess": {"fields": [("obj", _E), ("ind", _E)], "getters": {}},
    "SAssign": {"fields": [("assn", "Assignable"), ("expr", _E)], "getters": {}},
    "SIAssign": {"fields": [("assn", "Assignable"), ("op", "Operator"), ("expr", _E)], "getters": {}},
    "SExpr": {"fields": [("expr", _E)], "getters": {}},
    "SIf": {"fields": [("if_", "Tuple[Expression, Statement]"), ("elifs", "List[Any]"), ("else_", "Optional[Statement]")],
            "getters": {}},
}
OBJ_CLASSES = {
    "Canvas": {"program": "ProgramS", "tensors": "Optional[List[TensorS]]"},
    "Graphics": {"program": "ProgramS", "metrics": "Optional[Metrics]", "canvas": "Canvas"},
    "SBlock": {"stmts": "List[Any]"},
}
ASSUMPTIONS = [
    "assumed observers: Program.get_spacetime, SpaceTime.get_space / get_time / get_slip / get_style / get_offset, "
    "Tensor.get_access (heap-independent while one activity is built)",
    "assumed pure: Canvas.__build_access (one Expression per access rank; its index arithmetic is not under contract)",
    "run-time clauses of C16 (tensors unchanged, no two activities share a stamp when the program runs) are not "
    "applicable: no fibertree semantics is modelled",
]

_OBS = dict(assumed=True, observer=True)


def rel_coord(st, rank):
    """the stamp component of a loop rank: its position variable, or its coordinate relative to the enclosing level"""
    return (EVar(rank.lower() + "_pos") if st.get_style(rank) == "pos" else
            (EVar(rank.lower()) if st.get_offset(rank) is None else
             EBinOp(EVar(rank.lower()), OSub(), EVar(st.get_offset(rank).lower()))))


def ets_(canvas):
    """the tensors of the Einsum being displayed"""
    return canvas.program.get_equation().get_tensors()


def stamp_tuple(e, st, ranks):
    return (isinstance(e, ETuple) and len(cast(ETuple, e).elems) == len(ranks)
            and all(cast(ETuple, e).elems[i] == rel_coord(st, ranks[i]) for i in range(len(ranks))))


def access_point(arg, tensor):
    """a point with one coordinate per rank of the tensor as displayed"""
    return (isinstance(arg, AJust) and isinstance(cast(AJust, arg).expr, ETuple)
            and len(cast(ETuple, cast(AJust, arg).expr).elems) == len(tensor.get_access()))


def slip_time(e, st):
    """(timestamps[<space stamp>] - 1,)"""
    return (isinstance(e, ETuple) and len(cast(ETuple, e).elems) == 1
            and isinstance(cast(ETuple, e).elems[0], EBinOp)
            and cast(EBinOp, cast(ETuple, e).elems[0]).op == OSub()
            and cast(EBinOp, cast(ETuple, e).elems[0]).expr2 == EInt(1)
            and isinstance(cast(EBinOp, cast(ETuple, e).elems[0]).expr1, EAccess)
            and cast(EAccess, cast(EBinOp, cast(ETuple, e).elems[0]).expr1).obj == EVar('timestamps')
            and stamp_tuple(cast(EAccess, cast(EBinOp, cast(ETuple, e).elems[0]).expr1).ind, st, st.get_space()))


def stamp_arg(arg, st):
    """spacetime=(<space stamp>, <time stamp>)"""
    return (isinstance(arg, AParam) and cast(AParam, arg).name == 'spacetime'
            and isinstance(cast(AParam, arg).expr, ETuple)
            and len(cast(ETuple, cast(AParam, arg).expr).elems) == 2
            and stamp_tuple(cast(ETuple, cast(AParam, arg).expr).elems[0], st, st.get_space())
            and (slip_time(cast(ETuple, cast(AParam, arg).expr).elems[1], st) if st.get_slip() else
                 stamp_tuple(cast(ETuple, cast(AParam, arg).expr).elems[1], st, st.get_time())))


def is_activity(s):
    return (isinstance(s, SExpr) and isinstance(cast(SExpr, s).expr, EMethod)
            and cast(EMethod, cast(SExpr, s).expr).obj == EVar('canvas')
            and cast(EMethod, cast(SExpr, s).expr).name == 'addActivity')


def counter_of(a, key):
    """timestamps[<key>]"""
    return isinstance(a, AAccess) and cast(AAccess, a).obj == EVar('timestamps') and cast(AAccess, a).ind == key


def slip_step(s, st):
    """if <space> in timestamps.keys(): timestamps[<space>] += 1  else: timestamps[<space>] = 1
    (the three occurrences of <space> are one and the same stamp expression)"""
    return (isinstance(s, SIf) and len(cast(SIf, s).elifs) == 0
            and isinstance(cast(SIf, s).if_[0], EBinOp)
            and cast(EBinOp, cast(SIf, s).if_[0]).op == OIn()
            and stamp_tuple(cast(EBinOp, cast(SIf, s).if_[0]).expr1, st, st.get_space())
            and isinstance(cast(EBinOp, cast(SIf, s).if_[0]).expr2, EMethod)
            and cast(EMethod, cast(EBinOp, cast(SIf, s).if_[0]).expr2).obj == EVar('timestamps')
            and cast(EMethod, cast(EBinOp, cast(SIf, s).if_[0]).expr2).name == 'keys'
            and isinstance(cast(SIf, s).if_[1], SIAssign)
            and counter_of(cast(SIAssign, cast(SIf, s).if_[1]).assn, cast(EBinOp, cast(SIf, s).if_[0]).expr1)
            and cast(SIAssign, cast(SIf, s).if_[1]).op == OAdd()
            and cast(SIAssign, cast(SIf, s).if_[1]).expr == EInt(1)
            and isinstance(cast(SIf, s).else_, SAssign)
            and counter_of(cast(SAssign, cast(SIf, s).else_).assn, cast(EBinOp, cast(SIf, s).if_[0]).expr1)
            and cast(SAssign, cast(SIf, s).else_).expr == EInt(1))


CONTRACTS = {
    "ProgramS.get_spacetime": dict(params=["self"], returns="Optional[SpaceTimeS]", **_OBS),
    "SpaceTimeS.get_space": dict(params=["self"], returns="List[str]", **_OBS),
    "SpaceTimeS.get_time": dict(params=["self"], returns="List[str]", **_OBS),
    "SpaceTimeS.get_slip": dict(params=["self"], returns="bool", **_OBS),
    "SpaceTimeS.get_style": dict(params=["self", "rank"], returns="str", **_OBS),
    "SpaceTimeS.get_offset": dict(params=["self", "rank"], returns="Optional[str]", **_OBS),
    "TensorS.get_access": dict(params=["self"], returns="List[str]", **_OBS),
    "Canvas.__build_access": dict(params=["self", "rank"], returns="Expression", assumed=True, modifies=[],
                                  raises={"ValueError": None, "AssertionError": None, "KeyError": None}),

    "SBlock.add": dict(
        kinds={"stmt": "Any"},
        requires=["not same_ref(self, stmt)"],
        modifies=["self.stmts[]"],
        ensures=[("appends_or_splices",
                  "(isinstance(stmt, SBlock) and self.stmts == old(self.stmts) + old(cast(SBlock, stmt).stmts)) or "
                  "(not isinstance(stmt, SBlock) and self.stmts == old(self.stmts) + [stmt])")],
    ),

    "Canvas.__rel_coord": dict(
        modifies=[],
        raises={"ValueError": "self.program.get_spacetime() is None or "
                              "(self.program.get_spacetime().get_style(rank) != 'coord' and "
                              " self.program.get_spacetime().get_style(rank) != 'pos')"},
        ensures=[("position_or_relative_coordinate", "result == rel_coord(self.program.get_spacetime(), rank)")],
    ),
    "Canvas.get_space_tuple": dict(
        modifies=[],
        raises={"ValueError": None},
        ensures=[("one_component_per_space_rank",
                  "stamp_tuple(result, self.program.get_spacetime(), self.program.get_spacetime().get_space())"),
                 ("own_list", "fresh(cast(ETuple, result).elems)")],
    ),
    "Canvas.get_time_tuple": dict(
        modifies=[],
        raises={"ValueError": None},
        ensures=[("one_component_per_time_rank",
                  "stamp_tuple(result, self.program.get_spacetime(), self.program.get_spacetime().get_time())"),
                 ("own_list", "fresh(cast(ETuple, result).elems)")],
    ),

    "Canvas.add_activity": dict(
        modifies=[],
        raises={"ValueError": None, "AssertionError": None, "KeyError": None},
        ensures=[("one_activity_call",
                  "isinstance(result, SExpr) and isinstance(cast(SExpr, result).expr, EMethod) and "
                  "cast(EMethod, cast(SExpr, result).expr).obj == EVar('canvas') and "
                  "cast(EMethod, cast(SExpr, result).expr).name == 'addActivity' and "
                  "self.tensors is not None and "
                  "len(cast(EMethod, cast(SExpr, result).expr).args) == len(self.tensors) + 1"),
                 ("one_coordinate_per_access_rank",
                  "all(access_point(cast(EMethod, cast(SExpr, result).expr).args[i], self.tensors[i]) "
                  "    for i in range(len(self.tensors)))"),
                 ("stamped",
                  "stamp_arg(cast(EMethod, cast(SExpr, result).expr).args[len(self.tensors)], self.program.get_spacetime())")],
        loops={0: dict(idx="ki", modifies=["args[]"],
                       inv=[("own", "fresh(args)"),
                            ("len", "len(args) == ki"),
                            ("points", "all(access_point(args[j], self.tensors[j]) and "
                                       "    not same_ref(cast(ETuple, cast(AJust, args[j]).expr).elems, args) for j in range(ki))")])},
    ),
    "SBlock.__init__": dict(
        kinds={"stmts": "List[Any]"},
        modifies=["self.stmts"],
        ensures=["same_ref(self.stmts, stmts)"],
    ),
    "Canvas.display_canvas": dict(
        modifies=[],
        raises={"ValueError": "self.tensors is None"},
        ensures=[("shows_the_canvas",
                  "isinstance(result, SExpr) and isinstance(cast(SExpr, result).expr, EFunc) and "
                  "cast(EFunc, cast(SExpr, result).expr).name == 'displayCanvas' and "
                  "len(cast(EFunc, cast(SExpr, result).expr).args) == 1 and "
                  "cast(EFunc, cast(SExpr, result).expr).args[0] == AJust(EVar('canvas'))")],
    ),
    "Graphics.make_footer": dict(
        requires=[("canvas_displays_the_same_program", "same_ref(self.canvas.program, self.program)")],
        modifies=[],
        raises={"ValueError": None},
        ensures=[("silent_without_display",
                  "implies(self.program.get_spacetime() is None or self.metrics is not None, "
                  "        isinstance(result, SBlock) and len(cast(SBlock, result).stmts) == 0)"),
                 ("displayed_once_otherwise",
                  "implies(self.program.get_spacetime() is not None and self.metrics is None, "
                  "        isinstance(result, SExpr) and isinstance(cast(SExpr, result).expr, EFunc) and "
                  "        cast(EFunc, cast(SExpr, result).expr).name == 'displayCanvas')")],
    ),
    # the canvas is created over snapshots that the display cannot tell from the tensors as they are NOW (same
    # variable name, same access ranks), the output (the live object) last; one createCanvas argument per snapshot,
    # spelled from that snapshot's name
    "ProgramS.get_equation": dict(params=["self"], returns="EquationS", **_OBS),
    "EquationS.get_tensors": dict(params=["self"], returns="List[TensorS]", **_OBS),
    "EquationS.get_output": dict(params=["self"], returns="TensorS", **_OBS),
    "TensorS.tensor_name": dict(params=["self"], returns="str", **_OBS),
    "Canvas.create_canvas": dict(
        modifies=["self.tensors"],
        ghost_entry="g_src = []\ng_at = []\n",
        ghost_after={"self.tensors.append(deepcopy(tensor))": "g_src = g_src + [kt]\ng_at = g_at + [len(self.tensors) - 1]\n"},
        ensures_env="exit",
        ensures=[
            ("snapshots_of_the_inputs_then_the_output",
             "len(self.tensors) == len(g_src) + 1 and "
             "self.tensors[len(g_src)] == self.program.get_equation().get_output() and "
             "all(0 <= g_src[t] and g_src[t] < len(ets_(self)) and ets_(self)[g_src[t]] != self.program.get_equation().get_output() "
             "    and self.tensors[t].tensor_name() == ets_(self)[g_src[t]].tensor_name() "
             "    and self.tensors[t].get_access() == ets_(self)[g_src[t]].get_access() "
             "    and self.tensors[t] != ets_(self)[g_src[t]] for t in range(len(g_src)))"),
            ("in_order", "all(g_src[t] < g_src[u] for u in range(len(g_src)) for t in range(u))"),
            ("every_input_displayed", "len(g_at) == len(ets_(self)) and "
                                      "all(implies(ets_(self)[j] != self.program.get_equation().get_output(), "
                                      "            0 <= g_at[j] and g_at[j] < len(g_src) and g_src[g_at[j]] == j) for j in range(len(ets_(self))))"),
            ("one_argument_per_displayed_tensor_by_its_name",
             "isinstance(result, SAssign) and cast(SAssign, result).assn == AVar('canvas') and "
             "isinstance(cast(SAssign, result).expr, EFunc) and cast(EFunc, cast(SAssign, result).expr).name == 'createCanvas' and "
             "len(cast(EFunc, cast(SAssign, result).expr).args) == len(self.tensors) and "
             "all(cast(EFunc, cast(SAssign, result).expr).args[i] == AJust(EVar(self.tensors[i].tensor_name())) "
             "    for i in range(len(self.tensors)))"),
        ],
        loops={0: dict(idx="kt", modifies=["self.tensors[]"], ghost_vars=["g_src", "g_at"],
                       ghost_step="g_at = g_at if len(g_at) == kt else g_at + [-1]\n",
                       inv=[("own", "fresh(self.tensors)"),
                            ("snap", "len(self.tensors) == len(g_src) and "
                                     "all(0 <= g_src[t] and g_src[t] < kt and ets_(self)[g_src[t]] != self.program.get_equation().get_output() "
                                     "    and self.tensors[t].tensor_name() == ets_(self)[g_src[t]].tensor_name() "
                                     "    and self.tensors[t].get_access() == ets_(self)[g_src[t]].get_access() "
                                     "    and self.tensors[t] != ets_(self)[g_src[t]] for t in range(len(g_src)))"),
                            ("order", "all(g_src[t] < g_src[u] for u in range(len(g_src)) for t in range(u))"),
                            ("all", "len(g_at) == kt and all(implies(ets_(self)[j] != self.program.get_equation().get_output(), "
                                    "0 <= g_at[j] and g_at[j] < len(g_src) and g_src[g_at[j]] == j) for j in range(kt))")])},
    ),
    "Canvas.__init__": dict(
        modifies=["self.program", "self.tensors"],
        ensures=["same_ref(self.program, program)", "self.tensors is None"],
    ),
    "Graphics.__init__": dict(
        modifies=["self.program", "self.metrics", "self.canvas"],
        ensures=[("canvas_displays_the_same_program", "same_ref(self.canvas.program, self.program)"),
                 "same_ref(self.program, program)", "fresh(self.canvas)"],
    ),
    "Graphics.make_body": dict(
        requires=[("canvas_displays_the_same_program", "same_ref(self.canvas.program, self.program)")],
        modifies=[],
        ghost_after={"if_ = SIf((cond, then), [], else_)": "assert slip_step(if_, spacetime)\n",
                     "body.add(if_)": "assert len(body.stmts) == 1 and slip_step(body.stmts[0], spacetime)\n"},
        raises={"ValueError": None, "AssertionError": None, "KeyError": None},
        ensures=[("fresh_block", "fresh(result) and fresh(result.stmts)"),
                 ("silent_without_display",
                  "implies(self.program.get_spacetime() is None or self.metrics is not None, len(result.stmts) == 0)"),
                 ("exactly_one_activity",
                  "implies(self.program.get_spacetime() is not None and self.metrics is None, "
                  "        len(result.stmts) == (2 if self.program.get_spacetime().get_slip() else 1) and "
                  "        is_activity(result.stmts[len(result.stmts) - 1]))"),
                 ("slip_counter_advanced_once_before_the_activity",
                  "implies(self.program.get_spacetime() is not None and self.metrics is None and "
                  "        self.program.get_spacetime().get_slip(), "
                  "        slip_step(result.stmts[0], self.program.get_spacetime()))")],
    ),
    "Graphics.make_header": dict(
        requires=[("canvas_displays_the_same_program", "same_ref(self.canvas.program, self.program)")],
        modifies=["self.canvas.tensors"],
        raises={"ValueError": None},
        ensures=[("silent_without_display",
                  "implies(self.program.get_spacetime() is None or self.metrics is not None, len(result.stmts) == 0)"),
                 ("canvas_then_counters",
                  "implies(self.program.get_spacetime() is not None and self.metrics is None, "
                  "        len(result.stmts) == (2 if self.program.get_spacetime().get_slip() else 1))"),
                 ("counters_start_empty",
                  "implies(self.program.get_spacetime() is not None and self.metrics is None and "
                  "        self.program.get_spacetime().get_slip(), "
                  "        isinstance(result.stmts[1], SAssign) and cast(SAssign, result.stmts[1]).assn == AVar('timestamps') "
                  "        and isinstance(cast(SAssign, result.stmts[1]).expr, EDict) "
                  "        and not any(True for k in cast(EDict, cast(SAssign, result.stmts[1]).expr).dict))")],
    ),
}
