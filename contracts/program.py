"""Sidecar contracts for teaal/ir/program.py (Program), teaal/trans/utils.py (TransUtils tmp counter),
teaal/trans/hifiber.py (HiFiber.__translate)."""

MODULES = {"Program": "teaal/ir/program.py", "TransUtils": "teaal/trans/utils.py",
           "HiFiber": "teaal/trans/hifiber.py"}

OBJ_CLASSES = {
    "Program": {
        "einsum": "Einsum", "mapping": "Mapping",
        "decl_tensors": "Dict[str, Tensor]", "tensors": "Dict[str, Tensor]", "einsums": "List[str]",
        "einsum_ind": "Optional[int]", "equation": "Optional[Equation]", "es_tensors": "List[Tensor]",
        "coord_math": "Optional[CoordMath]", "loop_order": "Optional[LoopOrder]",
        "partitioning": "Optional[Partitioning]", "spacetime": "Optional[SpaceTime]",
    },
    "TransUtils": {"count": "int", "program": "Program"},
    "HiFiber": {
        "program": "Program", "hardware": "Optional[Hardware]", "format": "Optional[Format]",
        "fusion": "Fusion", "trans_utils": "TransUtils", "hifiber": "SBlock",
        "metrics": "Optional[Metrics]", "graphics": "Graphics", "partitioner": "Partitioner",
        "header": "Header", "graph": "IterationGraph", "eqn": "TransEquation", "collector": "Collector",
    },
}

ASSUMPTIONS = [
    "assumed (not verified) contracts: Einsum.get_declaration / get_expressions, Mapping.get_rank_orders return "
    "containers owned by the parser objects and do not touch Program/Tensor state",
    "assumed frame of Equation/CoordMath/LoopOrder/Partitioning/SpaceTime/Metrics/FlowGraph/translator constructors "
    "as seen from Program: they write no Program field (justified by the encapsulation lemma checked structurally: "
    "every attribute store in teaal is `self.x = ...`) and change Tensor state only through Tensor's own methods",
    "str(int) is injective (lemma next_tmp/distinct uses it as an axiom about CPython)",
]

UF = {}


def fresh_program(p):
    """`Fresh`: the configuration-free state Program has after construction and after reset()"""
    return (p.equation is None and p.loop_order is None and p.partitioning is None
            and p.spacetime is None and len(p.es_tensors) == 0
            and all(fresh_tensor(t) for t in p.tensors.values()))


TENSOR_STATE = ["*.iter_ptr", "*.rank_ptr", "*.ranks", "*.is_output", "*.is_flat"]
CONFIG = ["self.einsum_ind", "self.equation", "self.es_tensors", "self.coord_math", "self.loop_order",
          "self.partitioning", "self.spacetime"]

CONTRACTS = {
    # ---------------------------------------------------------------- assumed externals (parser objects)
    "Einsum.get_declaration": dict(params=["self"], returns="Dict[str, List[str]]", observer=True, assumed=True),
    "Einsum.get_expressions": dict(params=["self"], returns="List[Tree]", observer=True, assumed=True),
    "Mapping.get_rank_orders": dict(params=["self"], returns="Dict[str, List[str]]", observer=True, assumed=True),

    # ---------------------------------------------------------------- Program
    "Program.__init__": dict(
        modifies=["self.einsum", "self.mapping", "self.decl_tensors", "self.tensors", "self.einsums"] + CONFIG,
        raises={"ValueError": None},     # the raise-iff condition is stated and proved under C18
        ensures=[
            ("unconfigured", "self.equation is None and self.loop_order is None and self.partitioning is None "
                             "and self.spacetime is None and self.coord_math is None and self.einsum_ind is None "
                             "and len(self.es_tensors) == 0"),
            ("tensors_fresh", "all(fresh_tensor(t) for t in self.tensors.values())"),
            ("fresh", "fresh_program(self)"),
        ],
        loops={
            0: dict(idx="k0",
                    inv=[("decl_fresh", "all(fresh_tensor(t) for t in self.decl_tensors.values())")],
                    modifies=["self.decl_tensors[]"]),
            1: dict(idx="k1",
                    inv=[("fresh", "all(fresh_tensor(t) for t in self.tensors.values())"),
                         ("decl_fresh", "all(fresh_tensor(t) for t in self.decl_tensors.values())")],
                    modifies=["self.tensors[]"]),
        },
        abstract_loops={2: dict(modifies=["self.einsums[]"],
                                why="collects output names from lark trees; irrelevant to tensor/program state")},
    ),
    "Program.reset": dict(
        modifies=["self.equation", "self.es_tensors", "self.loop_order", "self.partitioning", "self.spacetime"] + TENSOR_STATE,
        ensures=[("fresh", "fresh_program(self)"),
                 ("tensor_set_kept", "same_ref(self.tensors, old(self.tensors))")],
        loops={0: dict(idx="k", enum="vals",
                       inv=[("reset_so_far", "all(fresh_tensor(self.tensors[vals[j]]) for j in range(k))")])},
    ),
}

CONTRACTS.update({
    # ---------------------------------------------------------------- TransUtils
    "TransUtils.__init__": dict(
        modifies=["self.count", "self.program"],
        ensures=[("count", "self.count == -1"), ("program", "same_ref(self.program, program)")],
    ),
    "TransUtils.next_tmp": dict(
        modifies=["self.count"],
        ensures=[("monotone", "self.count == old(self.count) + 1"),
                 ("name", "result == 'tmp' + str(self.count)")],
    ),
    "TransUtils.curr_tmp": dict(
        pure=True,
        raises={"ValueError": "self.count == -1"},
        ensures=[("name", "result == 'tmp' + str(self.count)")],
    ),
})

# ---------------------------------------------------------------- HiFiber.__translate and what it calls
# Frames of the collaborators as seen from Program/Tensor state. They are ASSUMED (listed in evidence); what
# justifies them is the encapsulation lemma (checked structurally on every run): Program fields are written
# only by Program's methods, Tensor fields only by Tensor's methods.
def _opaque_ctor(params, extra_mod=()):
    return dict(params=["self"] + params, assumed=True, modifies=TENSOR_STATE + list(extra_mod), returns="None")


CONTRACTS.update({
    "Program.add_einsum": dict(
        # proved separately (frame + definite assignment); used here through its contract
        requires=["fresh_program(self)", "i >= 0"],
        raises={"ValueError": None},
        modifies=CONFIG + TENSOR_STATE,
        ensures=[("configured", "self.equation is not None and self.loop_order is not None "
                                "and self.partitioning is not None and self.coord_math is not None "
                                "and self.einsum_ind == i"),
                 ("tensor_set_kept", "same_ref(self.tensors, old(self.tensors))"),
                 # every piece of per-Einsum configuration is built anew by this call (nothing carried over)
                 ("config_built_anew", "fresh(self.equation) and fresh(self.coord_math) and fresh(self.loop_order) "
                                       "and fresh(self.partitioning) and (self.spacetime is None or fresh(self.spacetime))")],
    ),
    "Metrics.__init__": _opaque_ctor(["program", "hardware", "format_"]),
    "Fusion.add_einsum": dict(params=["self", "program"], assumed=True, modifies=[], raises={"ValueError": None},
                              returns="None"),
    "FlowGraph.__init__": dict(params=["self", "program", "metrics", "opts"], assumed=True, returns="None",
                               modifies=TENSOR_STATE, raises={"ValueError": None, "AssertionError": None}),
    "FlowGraph.get_sorted": dict(params=["self"], assumed=True, observer=True, returns="List[Node]"),
    "Graphics.__init__": _opaque_ctor(["program", "metrics"]),
    "Partitioner.__init__": _opaque_ctor(["program", "trans_utils"]),
    "Header.__init__": _opaque_ctor(["program", "metrics", "partitioner"]),
    "IterationGraph.__init__": _opaque_ctor(["program"]),
    "TransEquation.__init__": _opaque_ctor(["program", "metrics"]),
    "Collector.__init__": _opaque_ctor(["program", "metrics", "fusion"]),
    "HiFiber.__trans_nodes": dict(
        raises={"ValueError": None},
        modifies=TENSOR_STATE + ["*.count"],
        ensures=[],
        assumed_body=True,       # its own contract (bracket structure) is proved under C10
    ),
    "HiFiber.__translate": dict(
        aliases={"Equation": "TransEquation"},
        requires=["fresh_program(self.program)", "i >= 0"],
        raises={"ValueError": None, "AssertionError": None},
        modifies=["self.metrics", "self.graphics", "self.partitioner", "self.header", "self.graph", "self.eqn",
                  "self.collector", "*.count",
                  "*.einsum_ind", "*.equation", "*.es_tensors", "*.coord_math", "*.loop_order", "*.partitioning",
                  "*.spacetime"] + TENSOR_STATE,
        ensures=[("program_fresh_again", "fresh_program(self.program)"),
                 ("same_program", "same_ref(self.program, old(self.program))")],
    ),
})

# ---------------------------------------------------------------- collaborators of Program.add_einsum (assumed frames)
CONTRACTS.update({
    "Equation.__init__": dict(params=["self", "equation", "tensors"], assumed=True, returns="None",
                              modifies=["*.is_output"], raises={"ValueError": None},
                              # proved under C18 (Equation.__build_tensors_trees/post[output_first, operands_in_order]):
                              # the tensors of an Equation are objects of the dictionary it was given
                              ensures=[("tensors_are_declared_objects",
                                        "all(any(same_ref(self.get_tensors()[j], tensors[n]) for n in tensors) "
                                        "    for j in range(len(self.get_tensors())))")]),
    "Equation.get_tensors": dict(params=["self"], assumed=True, observer=True, returns="List[Tensor]"),
    "Equation.get_trees": dict(params=["self"], assumed=True, observer=True, returns="List[Tree]"),
    "Equation.get_output": dict(params=["self"], assumed=True, observer=True, returns="Tensor"),
    "CoordMath.__init__": dict(params=["self"], assumed=True, returns="None", modifies=[]),
    "CoordMath.prune": dict(params=["self", "roots"], assumed=True, returns="None", modifies=[]),
    "LoopOrder.__init__": dict(params=["self", "equation"], assumed=True, returns="None", modifies=[]),
    "LoopOrder.add": dict(params=["self", "loop_order", "coord_math", "partitioning"], assumed=True, returns="None",
                          modifies=[], raises={"ValueError": None}),
    "LoopOrder.get_available_roots": dict(params=["self"], assumed=True, observer=True, returns="Set[str]"),
    "Partitioning.__init__": dict(params=["self", "partitioning", "ranks", "coord_math"], assumed=True,
                                  returns="None", modifies=[], raises={"ValueError": None}),
    "SpaceTime.__init__": dict(params=["self", "yaml", "partitioning", "name"], assumed=True, returns="None",
                               modifies=[], raises={"ValueError": None}),
    "Mapping.get_partitioning": dict(params=["self"], assumed=True, observer=True, returns="Dict[str, Any]"),
    "Mapping.get_loop_orders": dict(params=["self"], assumed=True, observer=True, returns="Dict[str, List[str]]"),
    "Mapping.get_spacetime": dict(params=["self"], assumed=True, observer=True, returns="Dict[str, Any]"),
    "Program.__add_ranks": dict(raises={"ValueError": None}, modifies=[], assumed_body=True),
})

def ets(p):
    """the tensors of the Einsum the program is configured for"""
    return p.equation.get_tensors()


CONTRACTS.update({
    # the rank set handed to Partitioning (which decides "is a flattened rank" / "is a partition level" by
    # membership in it) is exactly the set of ranks of the tensors of THIS Einsum
    "Program.__all_ranks": dict(
        pure=True, fresh_result=True,
        requires=["implies(self.equation is not None, all(wf_tensor(t) for t in ets(self)))"],
        raises={"ValueError": "self.equation is None"},
        ensures=[("every_rank_of_this_einsums_tensors",
                  "all(ets(self)[j].ranks[i] in result for j in range(len(ets(self))) "
                  "    for i in range(ets(self)[j].rank_ptr, len(ets(self)[j].ranks)))"),
                 ("only_ranks_of_this_einsums_tensors",
                  "all(any(ets(self)[j].ranks[i] == x for j in range(len(ets(self))) "
                  "        for i in range(ets(self)[j].rank_ptr, len(ets(self)[j].ranks))) for x in result)")],
        ghost_after={"ranks.update(tensor.get_ranks())":
                     "assert all(tensor.ranks[i] in ranks for i in range(tensor.rank_ptr, len(tensor.ranks)))\n"},
        loops={0: dict(idx="k", modifies=["ranks[]"],
                       inv=[("all_so_far", "all(ets(self)[j].ranks[i] in ranks for j in range(k) "
                                           "    for i in range(ets(self)[j].rank_ptr, len(ets(self)[j].ranks)))"),
                            ("only_so_far", "forall(lambda x: implies(x in ranks, any(ets(self)[j].ranks[i] == x for j in range(k) "
                                            "                      for i in range(ets(self)[j].rank_ptr, len(ets(self)[j].ranks)))))"),
                            ("own", "fresh(ranks)")])},
    ),
})


# ---------------------------------------------------------------- native small-scope generators
_SPECS = [
    ("""einsum:
  declaration:
    A: [K, M]
    B: [K, N]
    T: [M, N]
    Z: [M, N]
  expressions:
    - T[m, n] = A[k, m] * B[k, n]
    - Z[m, n] = T[m, n] + A[n, m]
""", """mapping:
  rank-order:
    A: [M, K]
  loop-order:
    T: [K, M, N]
  partitioning:
    Z:
      M: [uniform_shape(4)]
"""),
    ("""einsum:
  declaration:
    A: [K, M]
    U: [P, Q]
    T: [M]
    Z: [P]
  expressions:
    - T[m] = A[k, m]
    - Z[p] = U[p, q]
""", """mapping:
  loop-order:
    T: [K, M]
"""),
    ("""einsum:
  declaration:
    A: [I, J]
    Z: [I]
  expressions:
    - Z[i] = A[i, j]
""", """mapping:
  partitioning:
    Z:
      (I, J): [flatten()]
      IJ: [uniform_occupancy(A.3)]
"""),
]


def _programs():
    from teaal.parse.einsum import Einsum
    from teaal.parse.mapping import Mapping
    from teaal.ir.program import Program
    for es, ms in _SPECS:
        yield Program(Einsum.from_str(es), Mapping.from_str(ms)), Einsum.from_str(es), Mapping.from_str(ms)


def _gen_reset():
    for p, _, _ in _programs():
        yield p, ()
    for p, e, _ in _programs():
        for i in range(len(e.get_expressions())):
            q = next(x for x, _, _ in _programs() if x.einsum == p.einsum)
            q.add_einsum(i)
            out = q.get_equation().get_output()
            q.apply_all_partitioning(out)
            for t in q.get_equation().get_tensors():
                q.get_loop_order().apply(t)
                if t.peek() is not None:
                    t.pop()
            yield q, ()


def _gen_add_einsum():
    for p, e, _ in _programs():
        for i in range(len(e.get_expressions())):
            q = next(x for x, _, _ in _programs() if x.einsum == p.einsum)
            yield q, (i,)


def _gen_prog_init():
    from teaal.ir.program import Program
    for _, e, m in _programs():
        yield Program.__new__(Program), (e, m)


def _gen_tu():
    from teaal.trans.utils import TransUtils
    for c in (-1, 0, 3, 41):
        t = TransUtils(None)
        t.count = c
        yield t, ()


def _gen_all_ranks():
    for q, a in _gen_add_einsum():
        q.add_einsum(a[0])
        yield q, ()


GEN = {"Program.__all_ranks": _gen_all_ranks, "Program.reset": _gen_reset, "Program.add_einsum": _gen_add_einsum, "Program.__init__": _gen_prog_init,
       "TransUtils.next_tmp": _gen_tu, "TransUtils.curr_tmp": _gen_tu}
