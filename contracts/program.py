"""Sidecar contracts for teaal/ir/program.py (Program), teaal/trans/utils.py (TransUtils tmp counter),
teaal/trans/hifiber.py (HiFiber.__translate)."""

MODULES = {"Program": "teaal/ir/program.py", "TransUtils": "teaal/trans/utils.py",
           "HiFiber": "teaal/trans/hifiber.py"}

OBJ_CLASSES = {
    "Program": {
        "einsum": "Einsum", "mapping": "Mapping",
        "decl_tensors": "Dict[str, Tensor]", "tensors": "Dict[str, Tensor]", "einsums": "List[str]",
        "einsum_ind": "Optional[int]", "equation": "Optional[Equation]", "es_tensors": "List[Tensor]",
        "coord_math": "Optional[CoordMath]", "loop_order": "Optional[LoopOrder]",
        "partitioning": "Optional[Partitioning]", "spacetime": "Optional[SpaceTime]",
    },
    "TransUtils": {"count": "int", "program": "Program"},
    "HiFiber": {
        "program": "Program", "hardware": "Optional[Hardware]", "format": "Optional[Format]",
        "fusion": "Fusion", "trans_utils": "TransUtils", "hifiber": "SBlock",
        "metrics": "Optional[Metrics]", "graphics": "Graphics", "partitioner": "Partitioner",
        "header": "Header", "graph": "IterationGraph", "eqn": "TransEquation", "collector": "Collector",
    },
}

ASSUMPTIONS = [
    "assumed (not verified) contracts: Einsum.get_declaration / get_expressions, Mapping.get_rank_orders return "
    "containers owned by the parser objects and do not touch Program/Tensor state",
    "assumed frame of Equation/CoordMath/LoopOrder/Partitioning/SpaceTime/Metrics/FlowGraph/translator constructors "
    "as seen from Program: they write no Program field (justified by the encapsulation lemma checked structurally: "
    "every attribute store in teaal is `self.x = ...`) and change Tensor state only through Tensor's own methods",
    "str(int) is injective (lemma next_tmp/distinct uses it as an axiom about CPython)",
]

UF = {}


def fresh_program(p):
    """`Fresh`: the configuration-free state Program has after construction and after reset()"""
    return (p.equation is None and p.loop_order is None and p.partitioning is None
            and p.spacetime is None and len(p.es_tensors) == 0
            and all(fresh_tensor(t) for t in p.tensors.values()))


TENSOR_STATE = ["*.iter_ptr", "*.rank_ptr", "*.ranks", "*.is_output", "*.is_flat"]
CONFIG = ["self.einsum_ind", "self.equation", "self.es_tensors", "self.coord_math", "self.loop_order",
          "self.partitioning", "self.spacetime"]

CONTRACTS = {
    # ---------------------------------------------------------------- assumed externals (parser objects)
    "Einsum.get_declaration": dict(params=["self"], returns="Dict[str, List[str]]", observer=True, assumed=True),
    "Einsum.get_expressions": dict(params=["self"], returns="List[Tree]", observer=True, assumed=True),
    "Mapping.get_rank_orders": dict(params=["self"], returns="Dict[str, List[str]]", observer=True, assumed=True),

    # ---------------------------------------------------------------- Program
    "Program.__init__": dict(
        modifies=["self.einsum", "self.mapping", "self.decl_tensors", "self.tensors", "self.einsums"] + CONFIG,
        raises={"ValueError": None},     # the raise-iff condition is stated and proved under C18
        ensures=[
            ("unconfigured", "self.equation is None and self.loop_order is None and self.partitioning is None "
                             "and self.spacetime is None and self.coord_math is None and self.einsum_ind is None "
                             "and len(self.es_tensors) == 0"),
            ("tensors_fresh", "all(fresh_tensor(t) for t in self.tensors.values())"),
            ("fresh", "fresh_program(self)"),
        ],
        loops={
            0: dict(idx="k0",
                    inv=[("decl_fresh", "all(fresh_tensor(t) for t in self.decl_tensors.values())")],
                    modifies=["self.decl_tensors[]"]),
            1: dict(idx="k1",
                    inv=[("fresh", "all(fresh_tensor(t) for t in self.tensors.values())"),
                         ("decl_fresh", "all(fresh_tensor(t) for t in self.decl_tensors.values())")],
                    modifies=["self.tensors[]"]),
        },
        abstract_loops={2: dict(modifies=["self.einsums[]"],
                                why="collects output names from lark trees; irrelevant to tensor/program state")},
    ),
    "Program.reset": dict(
        modifies=["self.equation", "self.es_tensors", "self.loop_order", "self.partitioning", "self.spacetime"] + TENSOR_STATE,
        requires=["all(not same_ref(t.ranks, t.init_ranks) for t in self.tensors.values())"],
        ensures=[("fresh", "fresh_program(self)"),
                 ("tensor_set_kept", "same_ref(self.tensors, old(self.tensors))")],
        loops={0: dict(idx="k", enum="vals",
                       inv=[("reset_so_far", "all(fresh_tensor(self.tensors[vals[j]]) for j in range(k))"),
                            ("rest_wf", "all(not same_ref(t.ranks, t.init_ranks) for t in self.tensors.values())")])},
    ),
}

CONTRACTS.update({
    # ---------------------------------------------------------------- TransUtils
    "TransUtils.__init__": dict(
        modifies=["self.count", "self.program"],
        ensures=[("count", "self.count == -1"), ("program", "same_ref(self.program, program)")],
    ),
    "TransUtils.next_tmp": dict(
        modifies=["self.count"],
        ensures=[("monotone", "self.count == old(self.count) + 1"),
                 ("name", "result == 'tmp' + str(self.count)")],
    ),
    "TransUtils.curr_tmp": dict(
        pure=True,
        raises={"ValueError": "self.count == -1"},
        ensures=[("name", "result == 'tmp' + str(self.count)")],
    ),
})
