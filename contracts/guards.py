"""Sidecar contracts for the remaining legality guards of C18: dataflow checks of the translator
(teaal/trans/equation.py, class Equation = `TransEquation` here), binding checks (teaal/parse/bindings.py),
and Program.__init__'s raise-iff for duplicate ranks."""

MODULES = {"TransEquation": "teaal/trans/equation.py", "Bindings": "teaal/parse/bindings.py"}
CLASS_ALIAS = {"TransEquation": "Equation"}

OBJ_CLASSES = {
    "TransEquation": {"program": "ProgramO", "metrics": "Optional[Metrics]"},
    "Bindings": {"components": "Dict[str, Dict[str, Any]]", "configs": "Dict[str, Any]", "prefixes": "Dict[str, Any]"},
}
ASSUMPTIONS = [
    "assumed observers for the dataflow guards: ProgramO.get_equation().get_iter(tensors), OpaqueTensor.peek_clean, "
    "Partitioning.is_flattened / get_root_name / get_offset / get_step (heap-independent during make_iter_expr)",
    "`violation => ValueError` (raises_if) is what C18 states for the dataflow rules; other reasons for the translator "
    "to raise are not constrained",
]

_OBS = dict(assumed=True, observer=True)
_EXPR = dict(assumed=True, returns="Expression", modifies=[], raises={"ValueError": None})


def out_of(eq, tensors):
    return eq.program.get_equation().get_iter(tensors)[0]


CONTRACTS = {
    "ProgramO.get_equation": dict(params=["self"], returns="IrEquation", **_OBS),
    "ProgramO.get_partitioning": dict(params=["self"], returns="PartitioningO", **_OBS),
    "IrEquation.get_iter": dict(params=["self", "tensors"], returns="Tuple[Optional[OpaqueTensor], List[Any]]", **_OBS),
    "IrEquation.get_output": dict(params=["self"], returns="OpaqueTensor", **_OBS),
    "OpaqueTensor.peek_clean": dict(params=["self"], returns="str", **_OBS),
    "OpaqueTensor.fiber_name": dict(params=["self"], returns="str", **_OBS),
    "PartitioningO.is_flattened": dict(params=["self", "rank"], returns="bool", **_OBS),
    "PartitioningO.get_root_name": dict(params=["self", "rank"], returns="str", **_OBS),
    "PartitioningO.get_offset": dict(params=["self", "rank"], returns="Optional[str]", **_OBS),
    "PartitioningO.get_step": dict(params=["self", "rank"], returns="Optional[str]", **_OBS),
    # further public readers of Partitioning a translator may consult (unused on the unchanged tree; uninterpreted, so a
    # guard rewritten in terms of them is checked against the property's clause for every behaviour they could have)
    "PartitioningO.partition_rank": dict(params=["self", "rank"], returns="Optional[Tuple[str, ...]]", **_OBS),
    "PartitioningO.get_final_rank_id": dict(params=["self", "ranks", "rank"], returns="str", **_OBS),
    "PartitioningO.get_leader": dict(params=["self", "src", "dst"], returns="str", **_OBS),
    "PartitioningO.get_dyn_rank": dict(params=["self", "rank"], returns="str", **_OBS),
    "PartitioningO.get_intermediates": dict(params=["self", "tensor", "rank"], returns="List[str]", **_OBS),
    "PartitioningO.split_rank_name": dict(params=["self", "rank"], returns="Tuple[str, str]", **_OBS),
    "TransEquation.__add_enumerate": dict(params=["self", "rank", "expr"], **_EXPR),
    "TransEquation.__make_input_iter_expr": dict(params=["self", "rank", "tensors"], **_EXPR),
    "TransEquation.__add_operator": dict(params=["expr1", "op", "expr2"], **_EXPR),
    "EVar.__init__": dict(params=["self", "name"], assumed=True, returns="None", modifies=[]),
    "EInt.__init__": dict(params=["self", "v"], assumed=True, returns="None", modifies=[]),
    "OLtLt.__init__": dict(params=["self"], assumed=True, returns="None", modifies=[]),
    "OAdd.__init__": dict(params=["self"], assumed=True, returns="None", modifies=[]),
    "OSub.__init__": dict(params=["self"], assumed=True, returns="None", modifies=[]),
    "EBinOp.__init__": dict(params=["self", "a", "op", "b"], assumed=True, returns="None", modifies=[]),
    "EFunc.__init__": dict(params=["self", "name", "args"], assumed=True, returns="None", modifies=[]),
    "EMethod.__init__": dict(params=["self", "obj", "name", "args"], assumed=True, returns="None", modifies=[]),
    "AJust.__init__": dict(params=["self", "e"], assumed=True, returns="None", modifies=[]),

    "TransEquation.__make_output_only_iter_expr": dict(
        modifies=[],
        raises={"ValueError": "self.program.get_partitioning().is_flattened(rank)"},
    ),
    "TransEquation.make_iter_expr": dict(
        aliases={"Equation": "TransEquation"},
        kinds={"tensors": "List[OpaqueTensor]"},
        modifies=[],
        raises_if={"ValueError":
                   "len(tensors) == 0 or (out_of(self, tensors) is not None and "
                   "  ((len(tensors) == 1 and self.program.get_partitioning().is_flattened(rank)) or "
                   "   (len(tensors) != 1 and out_of(self, tensors).peek_clean() != rank)))"},
    ),

    "Bindings.__init__": dict(
        kinds={"yaml": "Optional[Dict[str, Dict[str, List[Dict[str, Any]]]]]"},
        frozen_params=["yaml"],
        modifies=["self.components", "self.configs", "self.prefixes"],
        raises={"ValueError": "yaml is not None and 'bindings' in yaml and "
                              "any(not any('config' in b for b in yaml['bindings'][e]) for e in yaml['bindings'])",
                "KeyError": None},
        loops={
            0: dict(idx="ko", enum="es", modifies=["self.components[]", "self.configs[]", "self.prefixes[]"],
                    inv=[("configured_so_far", "all(any('config' in b for b in yaml['bindings'][es[j]]) for j in range(ko))"),
                         ("own", "fresh(self.components) and fresh(self.configs) and fresh(self.prefixes)")]),
            1: dict(idx="ki", modifies=["self.components[einsum][]", "self.configs[]", "self.prefixes[]"],
                    inv=[("flag", "configured == any('config' in yaml['bindings'][einsum][j] for j in range(ki))"),
                         ("own", "fresh(self.components) and fresh(self.configs) and fresh(self.prefixes) "
                                 "and einsum in self.components and fresh(self.components[einsum])")]),
        },
    ),
}
