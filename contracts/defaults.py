"""Sidecar contracts for the defaulting code of C19: LoopOrder.add / __default_loop_order, Mapping.__init__,
Partitioning.__update_ranks."""

MODULES = {"LoopOrder": "teaal/ir/loop_order.py", "Mapping": "teaal/parse/mapping.py",
           "Partitioning": "teaal/ir/partitioning.py"}

OPAQUE_ATTRS = {"DiGraph": {"nodes": "Dict[Any, Dict[str, int]]"}}
VAL_CLASSES = {
    "RankNode": {"fields": [("rank", "str")], "getters": {"get_rank": "rank"}},
    "FlattenNode": {"fields": [("ranks", "Tuple[str, ...]")], "getters": {"get_ranks": "ranks"}},
    "PartitioningNode": {"fields": [], "getters": {}},
}
BASES = {"RankNode": ["PartitioningNode"], "FlattenNode": ["PartitioningNode"], "PartitioningNode": []}
MODULES.update({"RankNode": "teaal/ir/part_nodes.py", "FlattenNode": "teaal/ir/part_nodes.py",
                "PartitioningNode": "teaal/ir/part_nodes.py"})

OBJ_CLASSES = {
    "LoopOrder": {"equation": "IrEquation", "ranks": "Optional[List[str]]", "coord_math": "Optional[CoordMath]",
                  "partitioning": "Optional[PartitioningO]"},
    "Mapping": {"loop_orders": "Dict[str, Any]", "partitioning": "Dict[str, Any]", "rank_orders": "Dict[str, Any]",
                "spacetime": "Dict[str, Any]"},
    "Partitioning": {"graph": "DiGraph", "orig_ranks": "Set[str]", "coord_math": "CoordMath"},
}
ASSUMPTIONS = [
    "assumed observers: IrEquation.get_einsum_ranks, Partitioning.partition_ranks / get_all_parts / partition_names "
    "(heap-independent during LoopOrder.add / __update_ranks)",
    "Mapping.__init__: the two parsing loops (partitioning, spacetime) are abstracted; they only fill the local "
    "dictionaries `partitioning` and `spacetime`",
    "partition_names(part, all_) lists a rank's levels in ascending level order (so in-place insertion yields "
    "outermost-to-innermost); checked natively in the thorough tier",
]

_OBS = dict(assumed=True, observer=True)
CONTRACTS = {
    "IrEquation.get_einsum_ranks": dict(params=["self"], returns="List[str]", **_OBS),
    "PartitioningO.partition_ranks": dict(params=["self", "ranks", "parts", "all_", "swizzle"], returns="List[str]", **_OBS),
    "PartitioningO.get_all_parts": dict(params=["self"], returns="Set[Any]", **_OBS),

    "LoopOrder.__default_loop_order": dict(
        pure=True,
        raises={"ValueError": "self.partitioning is None"},
        ensures=[("default", "same_ref(result, self.partitioning.partition_ranks(self.equation.get_einsum_ranks(), "
                             "self.partitioning.get_all_parts(), True, True))")],
    ),
    "LoopOrder.add": dict(
        kinds={"partitioning": "PartitioningO", "coord_math": "CoordMath"},
        modifies=["self.coord_math", "self.partitioning", "self.ranks"],
        ensures=[
            ("given_order_is_used", "implies(loop_order is not None, same_ref(self.ranks, loop_order))"),
            ("omitted_means_default",
             "implies(loop_order is None, same_ref(self.ranks, partitioning.partition_ranks("
             "self.equation.get_einsum_ranks(), partitioning.get_all_parts(), True, True)))"),
            ("stores", "same_ref(self.partitioning, partitioning) and same_ref(self.coord_math, coord_math)"),
        ],
    ),

    "Mapping.__init__": dict(
        kinds={"yaml": "Optional[Dict[str, Dict[str, Any]]]"},
        modifies=["self.loop_orders", "self.partitioning", "self.rank_orders", "self.spacetime"],
        raises={"ValueError": None, "KeyError": None},
        ensures=[
            ("no_mapping_section",
             "implies(yaml is None or 'mapping' not in yaml or yaml['mapping'] is None, "
             "is_empty(self.loop_orders) and is_empty(self.partitioning) and is_empty(self.rank_orders) "
             "and is_empty(self.spacetime))"),
            ("omitted_loop_order", "implies(yaml is not None and 'mapping' in yaml and yaml['mapping'] is not None, "
                                   "(is_empty(self.loop_orders) and fresh(self.loop_orders)) if 'loop-order' not in yaml['mapping'] "
                                   "else (same_ref(self.loop_orders, yaml['mapping']['loop-order']) or "
                                   "      (yaml['mapping']['loop-order'] is None and is_empty(self.loop_orders))))"),
            ("omitted_rank_order", "implies(yaml is not None and 'mapping' in yaml and yaml['mapping'] is not None, "
                                   "(is_empty(self.rank_orders) and fresh(self.rank_orders)) if 'rank-order' not in yaml['mapping'] "
                                   "else (same_ref(self.rank_orders, yaml['mapping']['rank-order']) or "
                                   "      (yaml['mapping']['rank-order'] is None and is_empty(self.rank_orders))))"),
            ("omitted_partitioning", "implies(yaml is not None and 'mapping' in yaml and yaml['mapping'] is not None "
                                     "and 'partitioning' not in yaml['mapping'], is_empty(self.partitioning))"),
            ("omitted_spacetime", "implies(yaml is not None and 'mapping' in yaml and yaml['mapping'] is not None "
                                  "and 'spacetime' not in yaml['mapping'], is_empty(self.spacetime))"),
        ],
        abstract_loops={0: dict(modifies=["partitioning[]"], why="parses partitioning directives into the local dict"),
                        3: dict(modifies=["spacetime[]"], why="parses spacetime stamps into the local dict")},
    ),
}

CONTRACTS.update({
    # observer at its call sites; its body is verified for the part the default loop order depends on: the levels come
    # back in non-decreasing order of the priority recorded for them during the traversal (the traversal itself -
    # networkx successors - is abstracted: loop 0 only fills `names` and `priorities`)
    "Partitioning.partition_names": dict(
        params=["self", "ranks", "all_"], returns="List[str]", observer=True,
        kinds={"ranks": "Tuple[str, ...]"},
        raises={"ValueError": "len(ranks) == 0"},
        modifies=[],
        ensures_env="exit",
        ensures=[("levels_in_ascending_recorded_priority",
                  "all(priorities[result[i]] <= priorities[result[j]] for j in range(len(result)) for i in range(j))"),
                 ("the_collected_names", "same_ref(result, names)")],
        abstract_loops={0: dict(modifies=["names[]", "priorities[]", "frontier[]"],
                                why="graph traversal collecting the leaf level names and their graph priorities")},
    ),
    "Partitioning.__update_ranks": dict(
        kinds={"part_ranks": "Tuple[str, ...]"},
        requires=["len(part_ranks) == 1", "part_ranks[0] in tensor_ranks", "distinct(tensor_ranks)"],
        modifies=["tensor_ranks[]"],
        ensures=[
            ("levels_replace_the_rank_in_place",
             "tensor_ranks == old(tensor_ranks[:tensor_ranks.index(part_ranks[0])]) "
             "+ rev(self.partition_names(part_ranks, all_)) "
             "+ old(tensor_ranks[tensor_ranks.index(part_ranks[0]) + 1:])"),
        ],
        loops={
            0: dict(idx="k0", modifies=["tensor_ranks[]"],
                    inv=[("i", "i == old(tensor_ranks.index(part_ranks[0])) and 0 <= i and i < old(len(tensor_ranks))"),
                         ("state", "(k0 == 0 and in_place and tensor_ranks == old(tensor_ranks)) or "
                                   "(k0 == 1 and in_place and tensor_ranks == old(tensor_ranks[:tensor_ranks.index(part_ranks[0])]) "
                                   " + old(tensor_ranks[tensor_ranks.index(part_ranks[0]) + 1:]))")]),
            1: dict(idx="k1", modifies=["tensor_ranks[]"],
                    inv=[("i", "i == old(tensor_ranks.index(part_ranks[0]))"),
                         ("state", "tensor_ranks == old(tensor_ranks[:tensor_ranks.index(part_ranks[0])]) "
                                   "+ rev(new_ranks[:k1]) + old(tensor_ranks[tensor_ranks.index(part_ranks[0]) + 1:])")]),
        },
    ),
})
