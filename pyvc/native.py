"""Native (CPython) evaluation of the same sidecar contracts on the real functions:
used by the refuter (counterexample search / replay) and by bounded run-time stand-ins."""
import ast
import copy
import importlib


class ContractViolation(Exception):
    def __init__(self, key, clause, detail):
        Exception.__init__(self, "%s: %s (%s)" % (key, clause, detail))
        self.key, self.clause, self.detail = key, clause, detail


def _mangle(tree, cname):
    if not cname:
        return tree

    class M(ast.NodeTransformer):
        def visit_Attribute(self, node):
            self.generic_visit(node)
            if node.attr.startswith("__") and not node.attr.endswith("__"):
                node.attr = "_" + cname.lstrip("_") + node.attr
            return node
    return M().visit(tree)


class ContractEvalError(Exception):
    """the contract text itself could not be evaluated natively: never a witness"""


class _LazyImplies(ast.NodeTransformer):
    """implies(a, b) -> (not a) or b   (python would evaluate b eagerly);
    e.find_data(d) -> list(e.find_data(d)) and next(x) -> next(iter(x)): lark hands out generators, the contracts
    (and the VC encoding) treat the result as the list of its elements"""

    def visit_Call(self, node):
        self.generic_visit(node)
        if isinstance(node.func, ast.Attribute) and node.func.attr == "find_data":
            return ast.copy_location(ast.Call(func=ast.Name(id="list", ctx=ast.Load()), args=[node], keywords=[]), node)
        if isinstance(node.func, ast.Name) and node.func.id == "next" and len(node.args) == 1:
            node.args = [ast.Call(func=ast.Name(id="iter", ctx=ast.Load()), args=[node.args[0]], keywords=[])]
            return node
        if isinstance(node.func, ast.Name) and node.func.id == "implies" and len(node.args) == 2:
            return ast.copy_location(ast.BoolOp(op=ast.Or(), values=[
                ast.UnaryOp(op=ast.Not(), operand=node.args[0]), node.args[1]]), node)
        return node


class _OldLift(ast.NodeTransformer):
    """replace every old(e) by __old[i]; collect the e's"""

    def __init__(self):
        self.olds = []

    def visit_Call(self, node):
        if isinstance(node.func, ast.Name) and node.func.id == "old" and len(node.args) == 1:
            self.olds.append(node.args[0])
            return ast.copy_location(
                ast.Subscript(value=ast.Name(id="__old", ctx=ast.Load()),
                              slice=ast.Constant(len(self.olds) - 1), ctx=ast.Load()), node)
        self.generic_visit(node)
        return node


def reachable_ids(objs, limit=20000):
    seen = set()
    stack = list(objs)
    while stack and len(seen) < limit:
        o = stack.pop()
        if id(o) in seen or isinstance(o, (int, str, bool, float, type(None), type)):
            continue
        seen.add(id(o))
        if isinstance(o, dict):
            stack.extend(o.keys())
            stack.extend(o.values())
        elif isinstance(o, (list, tuple, set, frozenset)):
            stack.extend(o)
        elif hasattr(o, "__dict__"):
            stack.extend(vars(o).values())
    return seen


def _register(orig, cp, table, depth=0):
    """remember which original object each (nested) container of a deep copy stands for"""
    if isinstance(orig, (int, str, bool, float, type(None))) or depth > 6:
        return
    table[id(cp)] = orig
    if isinstance(orig, (list, tuple)) and isinstance(cp, (list, tuple)) and len(orig) == len(cp):
        for a, b in zip(orig, cp):
            _register(a, b, table, depth + 1)
    elif isinstance(orig, dict) and isinstance(cp, dict):
        for k in orig:
            if k in cp:
                _register(orig[k], cp[k], table, depth + 1)
    elif hasattr(orig, "__dict__") and hasattr(cp, "__dict__"):
        for k, a in vars(orig).items():
            if k in vars(cp):
                _register(a, vars(cp)[k], table, depth + 1)


class Native:
    def __init__(self, uni):
        self.uni = uni
        self.evaluations = 0

    def helpers(self, pre_ids, orig_of):
        def same_ref(a, b):
            return a is b or orig_of.get(id(a)) is b or orig_of.get(id(b)) is a or \
                (id(a) in orig_of and orig_of.get(id(a)) is orig_of.get(id(b)))

        def fresh(x):
            return id(x) not in pre_ids

        def distinct(xs):
            return len(set(xs)) == len(xs)

        def implies(a, b):
            return (not a) or b

        def forall(f):
            return True      # unbounded quantifier: not evaluable natively (counted as not checked)

        def seq_key(xs):
            return tuple(xs)

        def is_empty(x):
            return x is not None and len(x) == 0

        def rev(xs):
            return list(reversed(xs))

        h = dict(is_empty=is_empty, rev=rev, same_ref=same_ref, fresh=fresh, distinct=distinct, implies=implies, forall=forall, exists=forall,
                 seq_key=seq_key)
        from collections import Counter
        h["Counter"] = Counter
        h.update(getattr(self.uni, "native_globals", {}))
        h["unfold"] = lambda *a: True
        h["cut"] = lambda *a: True
        for fname, rf in self.uni.recfuns.items():
            h[fname] = self._recfun(fname, rf, h)
        # spec functions are recompiled from their AST (lazy implies) into this namespace
        for name, fnode in self.uni.specs.items():
            fn2 = _LazyImplies().visit(ast.parse(ast.unparse(fnode)))
            ast.fix_missing_locations(fn2)
            exec(compile(fn2, "<spec %s>" % name, "exec"), h)
        return h

    def _recfun(self, fname, rf, h):
        ps = rf["params"]
        base = compile(rf["base"], "<recfun>", "eval")
        step = compile(rf["step"], "<recfun>", "eval")

        def f(*args):
            n = args[-1]
            env = dict(h)
            env.update(zip(ps[:-1], args[:-1]))
            acc = None
            memo = {}

            def g(*a):          # f(args..., i) inside the step refers to the value computed so far
                return memo[a[-1]]
            env[fname] = g
            env[ps[-1]] = 0
            memo[0] = eval(base, env)
            for i in range(n):
                env[ps[-1]] = i
                memo[i + 1] = eval(step, env)
            return memo[n]
        return f

    def compile(self, src, cname):
        tree = ast.parse(src, mode="eval")
        tree = _LazyImplies().visit(tree)
        lift = _OldLift()
        tree = lift.visit(tree)
        tree = _mangle(tree, cname)
        ast.fix_missing_locations(tree)
        olds = []
        for e in lift.olds:
            et = ast.Expression(body=_mangle(e, cname))
            ast.fix_missing_locations(et)
            olds.append(compile(et, "<old>", "eval"))
        return compile(tree, "<contract>", "eval"), olds

    def check_call(self, key, fn, self_obj, args, kwargs=None, ghost_exit=None, check_requires=True):
        con = self.uni.contracts[key]
        ghost_exit = ghost_exit or con.get("ghost_exit_native") or con.get("ghost_exit")
        ghost_entry = con.get("ghost_entry")
        """run the real function `fn` on concrete inputs under contract `key`.
        returns (outcome, value); raises ContractViolation when a clause fails."""
        kwargs = kwargs or {}
        cname = key.rpartition(".")[0]
        import inspect
        sig = inspect.signature(fn)
        if self_obj is not None:
            bound = sig.bind(self_obj, *args, **kwargs)
        else:
            bound = sig.bind(*args, **kwargs)
        bound.apply_defaults()
        env = dict(bound.arguments)
        pre_ids = reachable_ids(list(env.values()))
        orig_of = {}
        h = self.helpers(pre_ids, orig_of)

        def ev(code, extra=None):
            g = dict(h)
            g.update(env)
            if extra:
                g.update(extra)
            return eval(code, g)
        if check_requires:
            for src in con.get("requires", []):
                name, src = src if isinstance(src, tuple) else (None, src)
                code, _ = self.compile(src, cname)
                if not ev(code):
                    return ("precondition-false", src)
        raise_expect = {}
        may_raise = set()
        for exc, src in (con.get("raises") or {}).items():
            if src is None:
                may_raise.add(exc)          # "may raise": no condition stated, any outcome of that kind is accepted
                continue
            code, _ = self.compile(src, cname)
            raise_expect[exc] = bool(ev(code))
        must_raise = {}
        for exc, src in (con.get("raises_if") or {}).items():
            code, _ = self.compile(src, cname)
            must_raise[exc] = bool(ev(code))
        ens = []
        for i, e in enumerate(con.get("ensures", [])):
            name, src = e if isinstance(e, tuple) else (str(i), e)
            code, olds = self.compile(src, cname)
            vals = []
            for oc in olds:
                v = ev(oc)
                c = copy.deepcopy(v)
                _register(v, c, orig_of)
                vals.append(c)
            ens.append((name, src, code, vals))
        ghost_ns = dict(h)
        ghost_ns.update(env)
        if ghost_entry:
            exec(compile(_mangle(ast.parse(ghost_entry), cname), "<ghost>", "exec"), ghost_ns)
        self.evaluations += 1
        try:
            value = fn(self_obj, *args, **kwargs) if self_obj is not None else fn(*args, **kwargs)
            outcome = "return"
        except Exception as e:      # noqa
            outcome = type(e).__name__
            value = e
        if outcome != "return" and outcome in must_raise:
            return (outcome, value)
        if outcome == "return":
            for exc, expected in must_raise.items():
                if expected:
                    raise ContractViolation(key, "raises_if[%s]/violation_is_rejected" % exc, "returned normally")
        if outcome != "return" and outcome in may_raise:
            return (outcome, value)
        if outcome != "return":
            if outcome not in raise_expect:
                raise ContractViolation(key, "raises[%s]/unexpected" % outcome, repr(value))
            if not raise_expect[outcome]:
                raise ContractViolation(key, "raises[%s]/only_if" % outcome, repr(value))
            return (outcome, value)
        for exc, expected in raise_expect.items():
            if expected:
                raise ContractViolation(key, "raises[%s]/if" % exc, "returned normally")
        if ghost_exit:
            ghost_ns["result"] = value
            exec(compile(_mangle(ast.parse(ghost_exit), cname), "<ghost>", "exec"), ghost_ns)
        ghosts = {k: v for k, v in ghost_ns.items() if k.startswith("g_")}
        for name, src, code, vals in ens:
            try:
                ok = ev(code, dict(ghosts, result=value, __old=vals))
            except Exception as e:      # noqa
                raise ContractEvalError("%s post[%s]: %r" % (key, name, e))
            if not ok:
                raise ContractViolation(key, "post[%s]" % name, src)
        return ("return", value)


def real_function(uni, key):
    """the real function object from the repository for a contract key 'Class.method'"""
    cname, _, mname = key.rpartition(".")
    rel = uni.contracts[key].get("module") or uni.modules.get(cname)
    modname = rel[:-3].replace("/", ".")
    mod = importlib.import_module(modname)
    cname = uni.class_alias.get(cname, cname)
    if cname:
        cls = getattr(mod, cname)
        if mname.startswith("__") and not mname.endswith("__"):
            mname = "_" + cname.lstrip("_") + mname
        return cls.__dict__[mname].__func__ if isinstance(cls.__dict__[mname], (staticmethod, classmethod)) \
            else cls.__dict__[mname], cls
    return getattr(mod, mname), None
