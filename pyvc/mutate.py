"""scratch-copy mutation helper (canaries): copy /repo/teaal to a temp dir, apply textual replacements,
yield the directory; removed afterwards."""
import contextlib, os, shutil, tempfile


@contextlib.contextmanager
def mutated(relpath, old, new, count=1, repo="/repo"):
    d = tempfile.mkdtemp(prefix="pyvc_canary_")
    try:
        shutil.copytree(os.path.join(repo, "teaal"), os.path.join(d, "teaal"))
        os.symlink(os.path.join(repo, "tests"), os.path.join(d, "tests"))
        p = os.path.join(d, relpath)
        s = open(p).read()
        if s.count(old) < 1:
            raise RuntimeError("canary anchor not found in %s: %r" % (relpath, old))
        s = s.replace(old, new, count)
        open(p, "w").write(s)
        yield d
    finally:
        shutil.rmtree(d, ignore_errors=True)
