"""Symbolic state, universe of classes/contracts, obligations."""
import ast
import copy
import z3
from .sorts import *   # noqa
from . import extract


class OutOfSubset(Exception):
    pass


class SV:
    """symbolic value: V-sorted term + kind"""
    __slots__ = ("t", "k", "h")

    def __init__(self, t, k, h=None):
        self.t = t
        self.k = k
        self.h = h        # heap snapshot (a State) this value must be read in; None = current heap

    def __repr__(self):
        return "SV(%s,%s)" % (self.t, self.k)


class Obligation:
    def __init__(self, name, hyps, goal, kind="vc", line=None, func=None):
        self.name = name
        self.hyps = list(hyps)
        self.goal = goal
        self.kind = kind
        self.line = line
        self.func = func
        self.status = None      # discharged | countermodel | unknown
        self.backend = None
        self.seconds = 0.0
        self.detail = ""


class Exit:
    def __init__(self, kind, state, value=None, exc=None, line=None):
        self.kind = kind        # 'return' | 'raise'
        self.state = state
        self.value = value
        self.exc = exc
        self.line = line


class Universe:
    """Everything the sidecars declare: classes, contracts, spec functions, axioms."""

    def __init__(self):
        self.obj_classes = {}    # name -> {field: kindstr}
        self.val_classes = {}    # name -> {'fields': [(fname, kindstr)], 'getters': {meth: fname}}
        self.bases = {}          # name -> [base names]
        self.class_ids = {}
        self.contracts = {}      # 'Class.method' / 'mod.func' -> dict
        self.specs = {}          # spec function name -> ast.FunctionDef
        self.spec_natives = {}
        self.modules = {}        # 'Class' -> relpath of the repo module that defines it
        self.axioms = []         # strings (closed spec expressions)
        self.uf = {}             # name -> z3 Function
        self.assumptions = []    # human-readable list for evidence
        self.class_names = set() # names usable as class constants (isinstance / observer arguments)
        self.class_alias = {}    # sidecar class name -> real class name in the repository module
        self.opaque_attrs = {}   # class -> {attribute: kind string}   (observer attributes of opaque classes)
        self.recfuns = {}        # name -> {"params": [...], "base": src, "step": src}  (defined by unfolding)

    # ---- classes
    def class_id(self, name):
        if name not in self.class_ids:
            self.class_ids[name] = len(self.class_ids) + 1
        return self.class_ids[name]

    def class_kind(self, name):
        if name in self.obj_classes:
            return K("obj", name)
        if name in self.val_classes:
            return K("val", name)
        return K("opaque", name)

    def subclasses(self, name):
        out = {name}
        changed = True
        while changed:
            changed = False
            for c, bs in self.bases.items():
                if c not in out and any(b in out for b in bs):
                    out.add(c)
                    changed = True
        return out

    def mro(self, name):
        out = [name]
        for b in self.bases.get(name, []):
            for x in self.mro(b):
                if x not in out:
                    out.append(x)
        return out

    def field_kind(self, cname, field):
        for c in self.mro(cname):
            if c in self.obj_classes and field in self.obj_classes[c]:
                k = kind_of_annotation(self.obj_classes[c][field], self)
                if field.startswith("g_") and k.head in ("list", "set", "dict"):
                    k = K(*(tuple(k) + ("g",)))      # ghost field: its container lives in the ghost address space
                return k
        return None

    def find_contract(self, cname, meth):
        for c in self.mro(cname):
            key = c + "." + meth
            if key in self.contracts:
                return key, self.contracts[key]
        return None, None

    def load_sidecar(self, mod):
        for cname, fields in getattr(mod, "OBJ_CLASSES", {}).items():
            self.obj_classes.setdefault(cname, {}).update(fields)
        for cname, spec in getattr(mod, "VAL_CLASSES", {}).items():
            self.val_classes[cname] = spec
        for cname, bs in getattr(mod, "BASES", {}).items():
            self.bases[cname] = list(bs)
        for cname, rel in getattr(mod, "MODULES", {}).items():
            self.modules[cname] = rel
        for key, c in getattr(mod, "CONTRACTS", {}).items():
            self.contracts[key] = c
        self.class_names.update(getattr(mod, "CLASS_NAMES", []))
        for c, d in getattr(mod, "OPAQUE_ATTRS", {}).items():
            self.opaque_attrs.setdefault(c, {}).update(d)
        self.recfuns.update(getattr(mod, "RECFUN", {}))
        self.class_alias.update(getattr(mod, "CLASS_ALIAS", {}))
        self.__dict__.setdefault("str_classes", {}).update(getattr(mod, "STR_CLASSES", {}))
        for c, d in getattr(mod, "CLASS_ATTRS", {}).items():
            self.__dict__.setdefault("class_attrs", {}).setdefault(c, {}).update(d)
        self.__dict__.setdefault("closed_hierarchies", set()).update(getattr(mod, "CLOSED_HIERARCHIES", []))
        for c, why in getattr(mod, "HIERARCHY_OUT_OF_SCOPE", {}).items():
            self.__dict__.setdefault("hierarchy_out_of_scope", {})[c] = why
            a = "class %s is outside the declared hierarchy: %s" % (c, why)
            if a not in self.assumptions:
                self.assumptions.append(a)
        if hasattr(mod, "native_globals"):
            self.__dict__.setdefault("native_globals", {}).update(mod.native_globals())
        for ax in getattr(mod, "AXIOMS", []):
            self.axioms.append(ax)
        for a in getattr(mod, "ASSUMPTIONS", []):
            if a not in self.assumptions:
                self.assumptions.append(a)
        for name, sig in getattr(mod, "UF", {}).items():
            # sig: ([argsorts...], ressort) with sorts 'V','Int','Bool','Str'
            sm = {"V": V, "Int": IntS, "Bool": BoolS, "Str": StrS, "Elems": ElemArr, "Mem": MemArr}
            args, res = sig
            self.uf[name] = z3.Function("uf_" + name, *[sm[a] for a in args], sm[res])
        # spec functions: module-level defs whose body is a single `return <expr>`
        import inspect
        try:
            src = inspect.getsource(mod)
        except OSError:
            src = ""
        if src:
            tree = ast.parse(src)
            for node in tree.body:
                if isinstance(node, ast.FunctionDef) and not node.name.startswith("_"):
                    body = extract.strip_doc(node.body)
                    if len(body) == 1 and isinstance(body[0], ast.Return):
                        self.specs[node.name] = node
                        self.spec_natives[node.name] = getattr(mod, node.name)


class State:
    def __init__(self, uni):
        self.uni = uni
        self.env = {}            # name -> SV
        self.heap = {}           # heap component name -> z3 array term
        self.alloc = None        # Int term
        self.pc = []             # path condition
        self.frames = []         # active frame restrictions (list of Frame)
        # facts that hold unconditionally (definitions of fresh symbols, typing): z3 AST id -> the AST itself. The
        # AST is kept alive on purpose: z3 recycles the ids of freed ASTs, and a recycled id would make an unrelated
        # later fact (e.g. a short-circuit guard) look unconditional
        self.glob = {}
        self.in_binder = 0
        self.typed_seen = set()
        self.on_new_heap = None
        self.ghost_mode = 0
        self.galloc = None

    def fork(self):
        s = State(self.uni)
        s.env = dict(self.env)
        s.heap = dict(self.heap)
        s.alloc = self.alloc
        s.pc = list(self.pc)
        s.frames = list(self.frames)
        s.glob = self.glob       # shared on purpose (ids only ever get added)
        s.typed_seen = set(self.typed_seen)
        s.on_new_heap = self.on_new_heap
        s.galloc = self.galloc
        return s

    def assume(self, f, glob=False):
        if z3.is_true(f):
            return
        self.pc.append(f)
        if glob:
            self.glob[f.get_id()] = f

    def H(self, comp):
        if comp not in self.heap:
            sort = HEAP_SORTS.get(comp, FIELD_SORT)
            self.heap[comp] = z3.Const("h0_" + comp, sort)
            if self.on_new_heap is not None:
                self.on_new_heap(comp, self.heap[comp])
        return self.heap[comp]

    def field(self, name):
        return self.H("f_" + name)


class Frame:
    """what may be written while this frame is active: comps -> list of allowed ref terms or '*';
    refs >= fresh_from are always allowed (allocated after the frame was opened)"""

    def __init__(self, label, fresh_from, allowed):
        self.label = label
        self.fresh_from = fresh_from
        self.allowed = allowed   # dict comp -> '*' | [Int terms]
