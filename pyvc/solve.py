"""Discharge obligations: z3 (python API) first, cvc5 CLI for z3's unknowns; process pool."""
import os
import subprocess
import tempfile
import time
import multiprocessing as mp
import z3

Z3_TIMEOUT_MS = int(os.environ.get("PYVC_Z3_MS", "15000"))
CVC5_TIMEOUT_S = int(os.environ.get("PYVC_CVC5_S", "10"))
CVC5 = "/usr/bin/cvc5"


QUICK_MS = int(os.environ.get("PYVC_QUICK_MS", "2000"))


def to_smt2(ob, goal=None, extra=(), hyps=None):
    s = z3.Solver()
    for h in (ob.hyps if hyps is None else hyps):
        s.add(h)
    for h in extra:
        s.add(h)
    s.add(z3.Not(ob.goal if goal is None else goal))
    return s.to_smt2()


_HEAPISH = ("h0_", "h_", "hv_llen", "hv_lel", "hv_smem", "hv_dhas", "hv_dval", "hv_f_", "alloc", "galloc",
            "len!", "lo!", "arr!", "has!", "val!")


def _syms(e, acc, seen):
    i = e.get_id()
    if i in seen:
        return
    seen.add(i)
    if z3.is_quantifier(e):
        _syms(e.body(), acc, seen)
        return
    if z3.is_app(e):
        d = e.decl()
        if d.kind() == z3.Z3_OP_UNINTERPRETED:
            n = d.name()
            if not n.startswith(_HEAPISH) and not n.startswith("b_"):
                acc.add(n)
        for c in e.children():
            _syms(c, acc, seen)


def prune_hyps(hyps, goal, extra):
    """relevance filter (dropping hypotheses is sound): keep every quantifier-free hypothesis and every quantified
    one whose own non-heap symbols all occur in the goal's cone; returns None when nothing would be dropped"""
    cone = set()
    _syms(goal, cone, set())
    for e in extra:
        _syms(e, cone, set())
    info = []
    for h in hyps:
        a = set()
        _syms(h, a, set())
        info.append((h, a, _has_quant(h)))
    kept = [h for h, a, q in info if (not q) or (not a) or a <= cone]
    if len(kept) == len(hyps):
        return None
    return kept


def prune_ghost(hyps, goal, extra):
    """second relevance filter: a goal that mentions no ghost symbol is first tried without the hypotheses that do"""
    cone = set()
    _syms(goal, cone, set())
    for e in extra:
        _syms(e, cone, set())
    if any("g_" in n for n in cone):
        return None
    kept = []
    for h in hyps:
        a = set()
        _syms(h, a, set())
        if not any("g_" in n for n in a):
            kept.append(h)
    return kept if len(kept) < len(hyps) else None


def _has_quant(e, seen=None):
    seen = seen if seen is not None else set()
    i = e.get_id()
    if i in seen:
        return False
    seen.add(i)
    if z3.is_quantifier(e):
        return True
    return any(_has_quant(c, seen) for c in e.children())


def split_goal(g, depth=0):
    """[(extra hypotheses, subgoal)]: conjunctions are proved conjunct by conjunct (much easier for the solver)"""
    if depth > 3:
        return [((), g)]
    if z3.is_quantifier(g) and g.is_forall() and g.num_patterns() == 0:
        # forall x. G -> (A and B)   ==>   (forall x. G -> A), (forall x. G -> B)
        n = g.num_vars()
        vs = [z3.Const("sp_%s_%d_%d" % (g.var_name(i), depth, i), g.var_sort(i)) for i in range(n)]
        body = z3.substitute_vars(g.body(), *reversed(vs))
        guard, core = None, body
        if z3.is_implies(body):
            guard, core = body.children()
        elif z3.is_or(body) and len(body.children()) == 2 and z3.is_not(body.children()[0]):
            guard, core = body.children()[0].children()[0], body.children()[1]
        if z3.is_and(core) and len(core.children()) > 1:
            out = []
            for c in core.children():
                piece = z3.ForAll(vs, z3.Implies(guard, c) if guard is not None else c)
                out.append(((), piece))
            return out
        return [((), g)]
    if z3.is_and(g):
        # conjunct i is proved under conjuncts 1..i-1 (sound: A and B  <=>  A and (A -> B))
        out = []
        before = ()
        for c in g.children():
            out += [(before + ex, sg) for ex, sg in split_goal(c, depth + 1)]
            before = before + (c,)
        return out
    if z3.is_implies(g):
        a, b = g.children()
        return [((a,) + ex, sg) for ex, sg in split_goal(b, depth + 1)]
    if z3.is_or(g) and len(g.children()) == 2:
        a, b = g.children()
        if z3.is_not(a) and z3.is_and(b):
            return [((a.children()[0],) + ex, sg) for ex, sg in split_goal(b, depth + 1)]
        if z3.is_not(b) and z3.is_and(a):
            return [((b.children()[0],) + ex, sg) for ex, sg in split_goal(a, depth + 1)]
    return [((), g)]


def _solve(job):
    name, smt2, z3_ms, use_cvc5, cover = job
    if cover:
        # vacuity guard: only `unsat` (contradictory hypotheses) matters; sat/unknown are both fine
        t0 = time.time()
        s = z3.Solver()
        s.set("timeout", 3000)
        s.from_string(smt2)
        r = s.check()
        return {"name": name, "backend": "z3", "result": "unsat" if r == z3.unsat else ("sat" if r == z3.sat else "unknown"),
                "detail": "", "seconds": time.time() - t0}
    t0 = time.time()
    out = {"name": name, "backend": "z3", "result": "unknown", "detail": ""}
    if isinstance(smt2, list):
        for fast in smt2[:-1]:
            # relevance-pruned queries first (only `unsat` counts there)
            try:
                s = z3.Solver()
                s.set("timeout", max(3000, z3_ms // 3))
                s.from_string(fast)
                if s.check() == z3.unsat:
                    out.update({"result": "unsat", "backend": "z3", "detail": "relevance-pruned hypotheses",
                                "seconds": time.time() - t0})
                    return out
            except Exception:      # noqa
                pass
        smt2 = smt2[-1]
    try:
        for attempt, params in enumerate(({}, {"smt.mbqi": False}, {"smt.ematching": True, "smt.mbqi": True,
                                                                      "smt.random_seed": 7})):
            s = z3.Solver()
            s.set("timeout", z3_ms if attempt == 0 else max(2000, z3_ms // 3))
            for k, v in params.items():
                try:
                    s.set(k, v)
                except z3.Z3Exception:
                    pass
            s.from_string(smt2)
            r = s.check()
            if r == z3.unsat:
                out["result"] = "unsat"
                break
            if r == z3.sat:
                out["result"] = "sat"
                try:
                    m = s.model()
                    out["detail"] = "\n".join("%s = %s" % (d.name(), m[d]) for d in m.decls()
                                              if not d.name().startswith("b_"))[:6000]
                except Exception as e:     # noqa
                    out["detail"] = "model unavailable: %r" % (e,)
                break
            out["detail"] = "z3: " + s.reason_unknown()
    except Exception as e:     # noqa
        out["detail"] = "z3 error: %r" % (e,)
    if out["result"] == "unknown" and use_cvc5 and os.path.exists(CVC5) and "lambda" not in smt2:
        try:
            with tempfile.NamedTemporaryFile("w", suffix=".smt2", delete=False) as f:
                f.write("(set-logic ALL)\n" + smt2)
                path = f.name
            p = subprocess.run([CVC5, "--strings-exp", "--tlimit=%d" % (CVC5_TIMEOUT_S * 1000), path],
                               capture_output=True, text=True, timeout=CVC5_TIMEOUT_S + 5)
            os.unlink(path)
            ans = p.stdout.strip().splitlines()[0] if p.stdout.strip() else ""
            if ans == "unsat":
                out["result"], out["backend"] = "unsat", "cvc5"
            elif ans == "sat":
                out["result"], out["backend"] = "sat", "cvc5"
                out["detail"] += "\ncvc5: sat (no model extracted)"
            else:
                out["detail"] += "\ncvc5: " + (ans or p.stderr.strip()[:200])
        except Exception as e:     # noqa
            out["detail"] += "\ncvc5 error: %r" % (e,)
    out["seconds"] = time.time() - t0
    return out


def _worker(job, conn):
    try:
        conn.send(_solve(job))
    except Exception as e:      # noqa
        conn.send({"name": job[0], "backend": "z3", "result": "unknown", "detail": "worker error %r" % (e,),
                   "seconds": 0.0})
    finally:
        conn.close()


def _run_jobs(jobs, procs, hard_s):
    """one process per job, at most `procs` at a time, each killed after hard_s seconds of wall time
    (z3's own timeout is not always honoured inside quantifier instantiation)"""
    ctx = mp.get_context("fork")
    pending = list(jobs)
    running = []
    results = []
    while pending or running:
        while pending and len(running) < procs:
            job = pending.pop(0)
            parent, child = ctx.Pipe(duplex=False)
            p = ctx.Process(target=_worker, args=(job, child))
            p.start()
            child.close()
            running.append((p, parent, job, time.time()))
        still = []
        for p, conn, job, t0 in running:
            if conn.poll(0):
                try:
                    results.append(conn.recv())
                except EOFError:
                    results.append({"name": job[0], "backend": "z3", "result": "unknown",
                                    "detail": "worker died", "seconds": time.time() - t0})
                p.join(1)
                conn.close()
            elif not p.is_alive():
                results.append({"name": job[0], "backend": "z3", "result": "unknown", "detail": "worker died",
                                "seconds": time.time() - t0})
                conn.close()
            elif time.time() - t0 > hard_s:
                p.terminate()
                p.join(2)
                if p.is_alive():
                    p.kill()
                results.append({"name": job[0], "backend": "z3", "result": "unknown",
                                "detail": "hard wall-clock limit %ds" % hard_s, "seconds": time.time() - t0})
                conn.close()
            else:
                still.append((p, conn, job, t0))
        running = still
        if running:
            time.sleep(0.01)
    return results


_ITEMS = []


def _quick_worker(idxs, conn):
    """phase A: many queries per process, each tried once, briefly, with everything in scope"""
    for i in idxs:
        name, ob, extra, sg, cover = _ITEMS[i]
        t0 = time.time()
        res = None
        try:
            s = z3.Solver()
            s.set("timeout", 3000 if cover else QUICK_MS)
            s.from_string(to_smt2(ob) if cover else to_smt2(ob, sg, extra))
            r = s.check()
            if cover:
                res = {"name": name, "backend": "z3", "detail": "", "seconds": time.time() - t0,
                       "result": "unsat" if r == z3.unsat else ("sat" if r == z3.sat else "unknown")}
            elif r == z3.unsat:
                res = {"name": name, "backend": "z3", "result": "unsat", "detail": "", "seconds": time.time() - t0}
        except Exception:      # noqa
            res = None
        try:
            conn.send((i, res))
        except Exception:      # noqa
            break
    conn.close()


def _quick_phase(n_items, procs):
    """returns {index: result} for the queries decided in phase A"""
    ctx = mp.get_context("fork")
    chunks = [list(range(k, n_items, procs)) for k in range(procs)]
    running = []
    for ch in chunks:
        if not ch:
            continue
        parent, child = ctx.Pipe(duplex=False)
        p = ctx.Process(target=_quick_worker, args=(ch, child))
        p.start()
        child.close()
        running.append((p, parent, time.time(), len(ch) * (QUICK_MS / 1000.0 + 1.0) + 30))
    done = {}
    while running:
        still = []
        for p, conn, t0, limit in running:
            alive = p.is_alive()
            try:
                while conn.poll(0):
                    i, res = conn.recv()
                    if res is not None:
                        done[i] = res
            except EOFError:
                alive = False
            if alive and time.time() - t0 > limit:
                p.terminate()
                p.join(2)
                if p.is_alive():
                    p.kill()
                alive = False
            if alive:
                still.append((p, conn, t0, limit))
            else:
                p.join(1)
                conn.close()
        running = still
        if running:
            time.sleep(0.02)
    return done


def discharge(obls, procs=None, z3_ms=None, use_cvc5=True):
    global _ITEMS
    procs = procs or min(16, os.cpu_count() or 4)
    z3_ms = z3_ms or Z3_TIMEOUT_MS
    items = []
    by_name = {}
    for ob in obls:
        # trivial cases without a solver call
        g = z3.simplify(ob.goal)
        if z3.is_true(g) and ob.kind not in ("cover", "cover-path"):
            ob.status, ob.backend, ob.seconds = "discharged", "simplifier", 0.0
            continue
        if ob.kind in ("cover", "cover-path"):
            items.append((ob.name, ob, None, None, True))
            by_name[ob.name] = (ob, 1)
            continue
        parts = split_goal(ob.goal)
        for i, (extra, sg) in enumerate(parts):
            nm = ob.name if len(parts) == 1 else "%s#%d" % (ob.name, i)
            items.append((nm, ob, extra, sg, False))
            by_name[nm] = (ob, len(parts))
        ob._parts = []
    if items:
        _ITEMS = items
        quick = _quick_phase(len(items), procs)
        results = [quick[i] for i in sorted(quick)]
        jobs = []
        for i, (nm, ob, extra, sg, cover) in enumerate(items):
            if i in quick:
                continue
            if cover:
                jobs.append((nm, to_smt2(ob), z3_ms, use_cvc5, True))
                continue
            texts = []
            pr = prune_hyps(ob.hyps, sg, extra)
            if pr is not None:
                texts.append(to_smt2(ob, sg, extra, pr))      # fast path: relevant hypotheses only
            pg = prune_ghost(ob.hyps, sg, extra)
            if pg is not None:
                texts.append(to_smt2(ob, sg, extra, pg))      # fast path: without ghost-only facts
            texts.append(to_smt2(ob, sg, extra))
            jobs.append((nm, texts, z3_ms, use_cvc5, False))
        _ITEMS = []
        hard = (z3_ms * 7) // 3000 + CVC5_TIMEOUT_S + 10
        results += _run_jobs(jobs, procs, hard) if jobs else []
        # second chance for undecided queries: fewer at a time, three times the budget (a verdict must not flip
        # because the machine was busy)
        again = [j for j in jobs if not j[4] and any(r["name"] == j[0] and r["result"] == "unknown" for r in results)]
        if again:
            big = z3_ms * 3
            retry = _run_jobs([(j[0], j[1], big, j[3], j[4]) for j in again], max(2, procs // 4),
                              (big * 7) // 3000 + CVC5_TIMEOUT_S + 10)
            better = {r["name"]: r for r in retry if r["result"] != "unknown"}
            results = [better.get(r["name"], r) for r in results]
        for r in results:
            ob, nparts = by_name[r["name"]]
            if nparts == 1:
                ob.backend = r["backend"]
                ob.seconds = r["seconds"]
                ob.detail = r["detail"]
                ob.status = {"unsat": "discharged", "sat": "countermodel", "unknown": "unknown"}[r["result"]]
                continue
            ob._parts.append(r)
            if len(ob._parts) == nparts:
                ob.seconds = sum(x["seconds"] for x in ob._parts)
                bad = [x for x in ob._parts if x["result"] != "unsat"]
                ob.backend = "+".join(sorted({x["backend"] for x in ob._parts}))
                if not bad:
                    ob.status, ob.detail = "discharged", "%d conjuncts" % nparts
                else:
                    ob.status = "countermodel" if any(x["result"] == "sat" for x in bad) else "unknown"
                    ob.detail = "\n".join("[conjunct %s] %s" % (x["name"].rsplit("#", 1)[1], x["detail"]) for x in bad)
    return obls
