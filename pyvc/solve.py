"""Discharge obligations: z3 (python API) first, cvc5 CLI for z3's unknowns; process pool."""
import os
import subprocess
import tempfile
import time
import multiprocessing as mp
import z3

Z3_TIMEOUT_MS = int(os.environ.get("PYVC_Z3_MS", "20000"))
CVC5_TIMEOUT_S = int(os.environ.get("PYVC_CVC5_S", "20"))
CVC5 = "/usr/bin/cvc5"


def to_smt2(ob):
    s = z3.Solver()
    for h in ob.hyps:
        s.add(h)
    s.add(z3.Not(ob.goal))
    return s.to_smt2()


def _solve(job):
    name, smt2, z3_ms, use_cvc5, cover = job
    if cover:
        # vacuity guard: only `unsat` (contradictory hypotheses) matters; sat/unknown are both fine
        t0 = time.time()
        s = z3.Solver()
        s.set("timeout", 3000)
        s.from_string(smt2)
        r = s.check()
        return {"name": name, "backend": "z3", "result": "unsat" if r == z3.unsat else ("sat" if r == z3.sat else "unknown"),
                "detail": "", "seconds": time.time() - t0}
    t0 = time.time()
    out = {"name": name, "backend": "z3", "result": "unknown", "detail": ""}
    try:
        for attempt, params in enumerate(({}, {"smt.mbqi": False}, {"smt.ematching": True, "smt.mbqi": True,
                                                                      "smt.random_seed": 7})):
            s = z3.Solver()
            s.set("timeout", z3_ms if attempt == 0 else max(2000, z3_ms // 2))
            for k, v in params.items():
                try:
                    s.set(k, v)
                except z3.Z3Exception:
                    pass
            s.from_string(smt2)
            r = s.check()
            if r == z3.unsat:
                out["result"] = "unsat"
                break
            if r == z3.sat:
                out["result"] = "sat"
                try:
                    m = s.model()
                    out["detail"] = "\n".join("%s = %s" % (d.name(), m[d]) for d in m.decls()
                                              if not d.name().startswith("b_"))[:6000]
                except Exception as e:     # noqa
                    out["detail"] = "model unavailable: %r" % (e,)
                break
            out["detail"] = "z3: " + s.reason_unknown()
    except Exception as e:     # noqa
        out["detail"] = "z3 error: %r" % (e,)
    if out["result"] == "unknown" and use_cvc5 and os.path.exists(CVC5) and "lambda" not in smt2:
        try:
            with tempfile.NamedTemporaryFile("w", suffix=".smt2", delete=False) as f:
                f.write("(set-logic ALL)\n" + smt2)
                path = f.name
            p = subprocess.run([CVC5, "--strings-exp", "--tlimit=%d" % (CVC5_TIMEOUT_S * 1000), path],
                               capture_output=True, text=True, timeout=CVC5_TIMEOUT_S + 5)
            os.unlink(path)
            ans = p.stdout.strip().splitlines()[0] if p.stdout.strip() else ""
            if ans == "unsat":
                out["result"], out["backend"] = "unsat", "cvc5"
            elif ans == "sat":
                out["result"], out["backend"] = "sat", "cvc5"
                out["detail"] += "\ncvc5: sat (no model extracted)"
            else:
                out["detail"] += "\ncvc5: " + (ans or p.stderr.strip()[:200])
        except Exception as e:     # noqa
            out["detail"] += "\ncvc5 error: %r" % (e,)
    out["seconds"] = time.time() - t0
    return out


def discharge(obls, procs=None, z3_ms=None, use_cvc5=True):
    procs = procs or min(16, os.cpu_count() or 4)
    z3_ms = z3_ms or Z3_TIMEOUT_MS
    jobs = []
    by_name = {}
    for ob in obls:
        # trivial cases without a solver call
        g = z3.simplify(ob.goal)
        if z3.is_true(g) and ob.kind != "cover":
            ob.status, ob.backend, ob.seconds = "discharged", "simplifier", 0.0
            continue
        jobs.append((ob.name, to_smt2(ob), z3_ms, use_cvc5, ob.kind == "cover"))
        by_name[ob.name] = ob
    if jobs:
        if procs > 1 and len(jobs) > 1:
            ctx = mp.get_context("fork")
            with ctx.Pool(min(procs, len(jobs))) as pool:
                results = pool.map(_solve, jobs, chunksize=1)
        else:
            results = [_solve(j) for j in jobs]
        for r in results:
            ob = by_name[r["name"]]
            ob.backend = r["backend"]
            ob.seconds = r["seconds"]
            ob.detail = r["detail"]
            ob.status = {"unsat": "discharged", "sat": "countermodel", "unknown": "unknown"}[r["result"]]
    return obls
