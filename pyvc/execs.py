"""Statement execution, loop cutting at invariants, per-function verification."""
import ast
import z3
from .sorts import *   # noqa
from .state import SV, OutOfSubset, Exit, Frame, Obligation, State
from . import ops, extract
from .ops import typed, assume_typed, unopt, bvar, bvarV
from .evalx import EvalMixin, SInt, SBool, SStr, Ctx, CODE, simp
from .calls import CallMixin

MUTATORS = {
    "append": ["list"], "insert": ["list"], "extend": ["list"], "remove": ["list", "set"],
    "pop": ["list", "dict"], "clear": ["list", "set", "dict"], "sort": ["list"], "reverse": ["list"],
    "add": ["set"], "discard": ["set"], "update": ["set", "dict"], "setdefault": ["dict"],
}


def preorder_loops(fn):
    out = []

    def visit(stmts):
        for s in stmts:
            if isinstance(s, (ast.For, ast.While)):
                out.append(s)
            for fld in ("body", "orelse", "finalbody"):
                if hasattr(s, fld) and isinstance(getattr(s, fld), list):
                    visit(getattr(s, fld))
    visit(fn.body)
    return out


def ordered_calls(fn):
    out = []

    class Vis(ast.NodeVisitor):
        def visit_Call(self, node):
            out.append(node)
            self.generic_visit(node)
    Vis().visit(fn)
    return out


class Exec(EvalMixin, CallMixin):
    def __init__(self, uni, key, contract, fnode=None, cname=None):
        self.uni = uni
        self.key = key
        self.con = contract
        cn, _, mn = key.rpartition(".")
        real = uni.class_alias.get(cn, cn)
        self.cname = cname if cname is not None else real
        self.kind_cname = cn
        if fnode is None:
            rel = contract.get("module") or uni.modules.get(cn)
            if rel is None:
                raise extract.Missing("no module for " + key)
            fnode = extract.module(rel).func((real + "." + mn) if cn else mn)
        self.fn = fnode
        self.obls = []
        self.exits = []
        self.check_safety = contract.get("safety", False)
        self.loops = preorder_loops(fnode)
        self.loop_ord = {id(n): i for i, n in enumerate(self.loops)}
        self.call_ord = {id(n): i for i, n in enumerate(ordered_calls(fnode))}
        self.decl_kinds = {}
        for n_, k_ in (contract.get("local_kinds") or {}).items():
            self.decl_kinds[n_] = kind_of_annotation(k_, self.uni)      # kinds of un-annotated locals (reported as an assumption)
        self.axioms = []
        self.cur_call = None
        self.name_counts = {}
        self.abstracted = []
        self.ghost_sites_hit = set()
        self.iter_heaps = {}

    # ------------------------------------------------------------ obligations
    def oblige(self, name, st, goal, line=None, kind="vc"):
        full = "%s/%s" % (self.key, name)
        n = self.name_counts.get(full, 0)
        self.name_counts[full] = n + 1
        ob = Obligation(full + ("~p%d" % n if n else ""), list(self.axioms) + list(st.pc), goal,
                        kind=kind, line=line, func=self.key)
        ob.base = full
        self.obls.append(ob)
        return ob

    def next_ordinal(self, label):
        # site ordinal in source order when evaluating code; -1 inside specifications
        node = self.cur_call
        if node is not None and id(node) in self.call_ord:
            return self.call_ord[id(node)]
        return -1

    def ev_Call(self, node, st, cx):
        saved = self.cur_call
        self.cur_call = node
        try:
            return CallMixin.ev_Call(self, node, st, cx)
        finally:
            self.cur_call = saved

    # ------------------------------------------------------------ verification of one function
    def verify(self):
        uni, con, fn = self.uni, self.con, self.fn
        reset_names = False
        st = State(uni)
        st.alloc = fresh("alloc0", IntS)
        st.assume(st.alloc >= 0)
        alloc0 = st.alloc
        seen_h0 = set()

        def on_new(comp, const):
            # initial heap is well-formed: stored references were allocated before entry
            if comp in seen_h0:
                return
            seen_h0.add(comp)
            f = ops.wf_refs(const, comp, alloc0)
            if f is not None:
                self.axioms.append(f)
        st.on_new_heap = on_new
        kinds_override = con.get("kinds", {})
        params = [a.arg for a in fn.args.args]
        for a in fn.args.args:
            if a.arg == "self":
                kc = getattr(self, "kind_cname", self.cname)
                k = K("obj", kc) if kc in uni.obj_classes else K("opaque", kc)
            elif a.arg in kinds_override:
                k = kind_of_annotation(kinds_override[a.arg], uni)
            else:
                k = kind_of_annotation(a.annotation, uni)
            t = z3.Const("p_" + a.arg, V)
            st.env[a.arg] = SV(t, k)
        is_ctor = fn.name == "__init__"
        for a in fn.args.args:
            sv = st.env[a.arg]
            if a.arg == "self" and is_ctor:
                # a freshly allocated object: only its identity and class are known
                st.assume(z3.And(is_VRef(sv.t), ref(sv.t) >= 0, ref(sv.t) < st.alloc))
                st.assume(z3.Select(st.H("cls"), ref(sv.t)) == uni.class_id(getattr(self, "kind_cname", self.cname)))
            else:
                assume_typed(st, sv.t, sv.k)
        for gname, gk in con.get("ghost_params", {}).items():
            t = z3.Const("g_" + gname, V)
            k = kind_of_annotation(gk, uni)
            st.env[gname] = SV(t, k)
            assume_typed(st, t, k)
        self.entry = st.fork()
        self.entry.pc = st.pc
        for pname in con.get("frozen_params", []):
            # the function does not write what this parameter reaches (shown by its own frame obligations, all
            # allowed write targets being fresh or disjoint): read it in the entry heap throughout
            sv = st.env[pname]
            st.env[pname] = SV(sv.t, sv.k, self.entry)
        entry_env = dict(st.env)
        cx0 = Ctx(spec=True)
        for ax in uni.axioms:
            self.axioms.append(self.formula(ax, st, cx0, pol=-1))
        self.axioms.append(seq_of_injective())
        self.axioms.extend(congruence_helpers())
        self.axioms.extend(seq_inverse_axioms())
        for src in con.get("requires", []):
            name, src = src if isinstance(src, tuple) else (None, src)
            st.assume(self.formula(src, st, cx0, pol=-1))
        self.pre = st.fork()
        self.pre_env = entry_env
        self.entry_alloc = st.alloc
        # vacuity: requires must be satisfiable
        self.oblige("cover/requires", st, z3.BoolVal(False), fn.lineno, kind="cover")
        # frame
        targets = self.eval_targets(con.get("modifies", []), st, st.env)
        allowed = {}
        for comp, r in targets:
            if r is None:
                allowed[comp] = "*"
            elif allowed.get(comp) != "*":
                allowed.setdefault(comp, []).append(r)
        fr = Frame("modifies", st.alloc, allowed)
        if is_ctor:
            fr.ctor_self = simp(ref(st.env["self"].t))
        if not con.get("no_frame"):
            st.frames.append(fr)
        body = extract.strip_doc(fn.body)
        if con.get("ghost_entry"):
            self.run_ghost(con["ghost_entry"], st)
        results = self.block(body, st)
        for anchor in (con.get("ghost_after") or {}):
            if anchor not in self.ghost_sites_hit:
                raise OutOfSubset("ghost anchor statement not found in the code: %r" % anchor)
        for s, flow in results:
            if flow != "next":
                raise OutOfSubset("break/continue outside loop")
            self.exits.append(Exit("return", s, SV(VNone, NONE), line=fn.end_lineno))
        # exits
        raises = con.get("raises") or {}
        for ex in self.exits:
            s = ex.state
            if ex.kind == "raise":
                src = raises.get(ex.exc)
                if (ex.exc in raises and src is None) or ex.exc in (con.get("raises_if") or {}):
                    continue        # "may raise": no only-if condition stated
                if src is None:
                    self.oblige("raises[%s]/unexpected" % ex.exc, s, z3.BoolVal(False), ex.line, kind="raises")
                else:
                    c = self.formula(src, self.pre_with_pc(s), Ctx(spec=True), entry_env, pol=1)
                    self.oblige("raises[%s]/only_if" % ex.exc, s, c, ex.line, kind="raises")
                continue
            self.oblige("cover/return-path", s, z3.BoolVal(False), ex.line, kind="cover-path")
            if con.get("ghost_exit"):
                saved = s.env
                self.run_ghost(con["ghost_exit"], s)
            for exc, src in raises.items():
                if src is None:
                    continue
                c = self.formula(src, self.pre_with_pc(s), Ctx(spec=True), entry_env, pol=-1)
                self.oblige("raises[%s]/if" % exc, s, z3.Not(c), ex.line, kind="raises")
            for exc, src in (con.get("raises_if") or {}).items():
                c = self.formula(src, self.pre_with_pc(s), Ctx(spec=True), entry_env, pol=-1)
                self.oblige("raises_if[%s]/violation_is_rejected" % exc, s, z3.Not(c), ex.line, kind="raises")
            rk = kind_of_annotation(fn.returns, uni) if fn.returns is not None else ANY
            res = ex.value
            if res is not None and res.k == ANY and rk != ANY:
                res = SV(res.t, rk)
            pcx = Ctx(spec=True, pre=self.pre, pre_env=entry_env, result=res, entry_alloc=self.entry_alloc)
            env = dict(entry_env)
            for gname in con.get("ghost_locals", []):
                if gname in s.env:
                    env[gname] = s.env[gname]
            if con.get("ensures_env") == "exit":
                env = dict(s.env)
            if con.get("fresh_result") and res is not None:
                self.oblige("post[fresh_result]", s, z3.And(is_VRef(res.t), ref(res.t) >= self.entry_alloc),
                            ex.line, kind="post")
            for i, e in enumerate(con.get("ensures", [])):
                name, src = e if isinstance(e, tuple) else (str(i), e)
                f = self.formula(src, s, pcx, env, pol=1)
                self.oblige("post[%s]" % name, s, f, ex.line, kind="post")
            # facts learnt while evaluating the contract itself must not make the path contradictory
            self.oblige("cover/return-path-after-contract", s, z3.BoolVal(False), ex.line, kind="cover-path")
        return self.obls

    def pre_with_pc(self, s):
        p = self.pre.fork()
        p.pc = s.pc
        return p

    def run_ghost(self, code, st):
        tree = ast.parse(code)
        saved_frames = st.frames
        st.frames = []
        self.in_ghost = getattr(self, "in_ghost", 0) + 1
        st.ghost_mode = 1
        res = []
        try:
            res = self.block(tree.body, st)
        finally:
            self.in_ghost -= 1
            st.ghost_mode = 0
            for s_, _ in res:
                s_.ghost_mode = 0
        if len(res) != 1 or res[0][0] is not st and False:
            pass
        if len(res) != 1:
            raise OutOfSubset("ghost code must be straight-line")
        s2 = res[0][0]
        if s2 is not st:
            st.env, st.heap, st.alloc, st.pc = s2.env, s2.heap, s2.alloc, s2.pc
        st.frames = saved_frames

    # ------------------------------------------------------------ statements
    def block(self, stmts, st):
        """returns [(state, flow)] with flow in next|break|continue; returns/raises go to self.exits"""
        live = [st]
        out = []
        for s in stmts:
            nxt = []
            for cur in live:
                for s2, flow in self.stmt(s, cur):
                    if flow == "next":
                        nxt.append(s2)
                    else:
                        out.append((s2, flow))
            live = nxt
            if not live:
                break
        return out + [(s, "next") for s in live]

    def stmt(self, node, st):
        ab = self.con.get("abstract_stmts")
        if ab and isinstance(node, (ast.Assign, ast.AnnAssign)):
            text = ast.unparse(node)
            hit = [a for a in ab if text.startswith(a)]
            if hit:
                # an assignment the sidecar abstracts (reported as an assumption): its targets get arbitrary values of their
                # declared kinds; its right-hand side is assumed to have no effect on the heap
                self.abstracted.append("statement `%s...` of %s abstracted: %s" % (hit[0][:50], self.key, ab[hit[0]]))
                self.ghost_sites_hit.add("abstract:" + hit[0])
                tgts = node.targets if isinstance(node, ast.Assign) else [node.target]
                for t in tgts:
                    if isinstance(t, (ast.Subscript, ast.Attribute)):
                        # a store into a container / field: an arbitrary value (of the kind the sidecar gives for the
                        # pseudo-local `<stmt prefix>`), stored by the ordinary assignment rule (frame checked as usual)
                        k_ = self.decl_kinds.get(hit[0].strip(), ANY)
                        t_ = fresh("abs_store", V)
                        tmp = "_abs_store_%d" % node.lineno
                        st.env[tmp] = SV(t_, k_)
                        assume_typed(st, t_, k_)
                        syn = ast.copy_location(ast.Assign(targets=[t], value=ast.copy_location(ast.Name(id=tmp, ctx=ast.Load()), node)), node)
                        ast.fix_missing_locations(syn)
                        if len(tgts) != 1:
                            raise OutOfSubset("abstracted store with several targets")
                        return self.st_Assign(syn, st)
                    for nm in [n for n in ast.walk(t) if isinstance(n, ast.Name)]:
                        k_ = self.decl_kinds.get(nm.id, ANY)
                        t_ = fresh("abs_" + nm.id, V)
                        st.env[nm.id] = SV(t_, k_)
                        assume_typed(st, t_, k_)
                return [(st, "next")]
        m = getattr(self, "st_" + type(node).__name__, None)
        if m is None:
            raise OutOfSubset("statement %s at line %s" % (type(node).__name__, node.lineno))
        ga0 = self.con.get("ghost_after")
        if ga0 and isinstance(node, ast.Expr) and isinstance(node.value, ast.Call) and not node.value.keywords \
                and "_arg" in (ga0.get(ast.unparse(node)) or ""):
            # ghost code that names the call's argument values (_arg0, _arg1, ...): the arguments are evaluated into
            # temporaries first, left to right, then the call is made on the temporaries (same evaluation order as Python:
            # the receiver expression here is a plain attribute path)
            call = node.value
            names = []
            for i_, a_ in enumerate(call.args):
                nm_ = "_arg%d" % i_
                asg = ast.fix_missing_locations(ast.copy_location(
                    ast.Assign(targets=[ast.Name(id=nm_, ctx=ast.Store())], value=a_), node))
                r_ = self.st_Assign(asg, st)
                if len(r_) != 1 or r_[0][1] != "next":
                    raise OutOfSubset("argument of an anchored call may raise (line %s)" % node.lineno)
                st = r_[0][0]
                names.append(ast.copy_location(ast.Name(id=nm_, ctx=ast.Load()), a_))
            node2 = ast.fix_missing_locations(ast.copy_location(ast.Expr(value=ast.copy_location(
                ast.Call(func=call.func, args=names, keywords=[]), call)), node))
            res = m(node2, st)
        else:
            res = m(node, st)
        ga = self.con.get("ghost_after")
        if ga and not isinstance(node, (ast.For, ast.While)):
            # anchor: the statement's source text; an `if` statement is anchored by "if <test>" (ghost code then runs
            # after the whole statement, on every branch that falls through)
            akey = ("if " + ast.unparse(node.test)) if isinstance(node, ast.If) else ast.unparse(node)
            code = ga.get(akey)
            if code:
                self.ghost_sites_hit.add(akey)
                for s2, flow in res:
                    if flow == "next":
                        self.run_ghost(code, s2)
        return res

    def st_Pass(self, node, st):
        return [(st, "next")]

    def st_Break(self, node, st):
        return [(st, "break")]

    def st_Continue(self, node, st):
        return [(st, "continue")]

    def st_Expr(self, node, st):
        if isinstance(node.value, ast.Constant):
            return [(st, "next")]
        v = node.value
        if getattr(self, "in_ghost", 0) and isinstance(v, ast.Call) and isinstance(v.func, ast.Name) \
                and v.func.id == "cut":
            # cut(targets, P): prove P, forget everything else about the targets, continue with P only
            tsrc = [t.strip() for t in v.args[0].value.split(",")]
            psrc = v.args[1].value
            cxg = Ctx(spec=True, pre=self.pre, pre_env=self.pre_env, entry_alloc=self.entry_alloc)
            env = dict(self.pre_env)
            env.update(st.env)
            self.oblige("cut[%s]" % psrc[:50], st, self.formula(psrc, st, cxg, env, pol=1), None, kind="lemma")
            self.havoc_targets(st, self.eval_targets(tsrc, st, env))
            st.assume(self.formula(psrc, st, cxg, env, pol=-1))
            return [(st, "next")]
        self.ev(node.value, st, CODE)
        return [(st, "next")]

    def st_Return(self, node, st):
        v = self.ev(node.value, st, CODE) if node.value is not None else SV(VNone, NONE)
        self.exits.append(Exit("return", st, v, line=node.lineno))
        return []

    def st_Raise(self, node, st):
        exc = node.exc
        name = None
        if isinstance(exc, ast.Call) and isinstance(exc.func, ast.Name):
            name = exc.func.id
        elif isinstance(exc, ast.Name):
            name = exc.id
        if name is None:
            raise OutOfSubset("raise of a computed exception")
        self.exits.append(Exit("raise", st, exc=name, line=node.lineno))
        return []

    def st_Assert(self, node, st):
        if getattr(self, "in_ghost", 0):
            # ghost lemma: proved here, then available to later obligations (helps quantifier instantiation)
            c = self.formula(node.test, st, Ctx(spec=True, pre=self.pre, pre_env=self.pre_env,
                                                entry_alloc=self.entry_alloc), pol=1)
            self.oblige("ghost-lemma[%s]" % ast.unparse(node.test)[:60], st, c, None, kind="lemma")
            st.assume(c)
            return [(st, "next")]
        c = self.truth(st, self.ev(node.test, st, CODE))
        bad = st.fork()
        bad.assume(z3.Not(c))
        self.exits.append(Exit("raise", bad, exc="AssertionError", line=node.lineno))
        st.assume(c)
        t_ = node.test
        if isinstance(t_, ast.Call) and isinstance(t_.func, ast.Name) and t_.func.id == "isinstance" \
                and isinstance(t_.args[0], ast.Name) and isinstance(t_.args[1], ast.Name) \
                and t_.args[0].id in st.env and (t_.args[1].id in self.uni.val_classes
                                                 or t_.args[1].id in self.uni.obj_classes):
            old_ = st.env[t_.args[0].id]
            st.env[t_.args[0].id] = SV(old_.t, self.uni.class_kind(t_.args[1].id), old_.h)   # narrowing, as for `if`
        return [(st, "next")]

    def st_If(self, node, st):
        c = simp(self.truth(st, self.ev(node.test, st, CODE)))
        out = []
        if not z3.is_false(c):
            a = st.fork()
            a.assume(c)
            t_ = node.test
            if isinstance(t_, ast.Call) and isinstance(t_.func, ast.Name) and t_.func.id == "isinstance" \
                    and isinstance(t_.args[0], ast.Name) and isinstance(t_.args[1], ast.Name) \
                    and t_.args[0].id in a.env and (t_.args[1].id in self.uni.val_classes
                                                    or t_.args[1].id in self.uni.obj_classes):
                old_ = a.env[t_.args[0].id]
                a.env[t_.args[0].id] = SV(old_.t, self.uni.class_kind(t_.args[1].id), old_.h)   # narrowing
            out += self.block(node.body, a)
        if not z3.is_true(c):
            b = st.fork()
            b.assume(z3.Not(c))
            out += self.block(node.orelse, b) if node.orelse else [(b, "next")]
        return out

    def st_AnnAssign(self, node, st):
        k = kind_of_annotation(node.annotation, self.uni)
        if isinstance(node.target, ast.Name) and node.target.id in (self.con.get("local_kinds") or {}):
            k = self.decl_kinds[node.target.id]       # the sidecar's (more precise) kind for this local wins
        if isinstance(node.target, ast.Name):
            self.decl_kinds[node.target.id] = k
        if node.value is None:
            return [(st, "next")]
        v = self.ev(node.value, st, CODE)
        if k != ANY and (v.k != NONE or k.head == "opt"):
            v = SV(v.t, k, v.h)      # the declared type wins over the (possibly narrower) type of the initialiser
            # (also for `x: Optional[T] = None`: a later havoc of x must range over Optional[T], not over None alone)
        self.assign(node.target, v, st, node)
        return [(st, "next")]

    @staticmethod
    def less_precise(a, b):
        if a == b:
            return False
        if a.head != b.head:
            return a.head == "any"
        return any(x == ANY for x in a[1:] if isinstance(x, K))

    def st_Assign(self, node, st):
        v = self.ev(node.value, st, CODE)
        for tgt in node.targets:
            self.assign(tgt, v, st, node)
        return [(st, "next")]

    def assign(self, tgt, v, st, node):
        line = node.lineno
        if isinstance(tgt, ast.Name):
            if getattr(self, "in_ghost", 0) and tgt.id.startswith("g_") and v.k.head in ("list", "set", "dict") \
                    and "g" not in v.k[1:]:
                v = SV(v.t, K(*(tuple(v.k) + ("g",))), v.h)
            dk = self.decl_kinds.get(tgt.id)
            if dk is not None and dk != ANY and (v.k != NONE or dk.head == "opt"):
                v = SV(v.t, dk, v.h)
            st.env[tgt.id] = v
            return
        if isinstance(tgt, ast.Attribute):
            base = self.ev(tgt.value, st, CODE)
            k = unopt(base.k)
            if k.head != "obj":
                raise OutOfSubset("attribute store on kind %r (line %s)" % (base.k, line))
            if self.uni.field_kind(k[1], tgt.attr) is None:
                raise OutOfSubset("field %s.%s not declared in sidecar (line %s)" % (k[1], tgt.attr, line))
            self.field_store(st, tgt.attr, ref(base.t), v.t, line)
            return
        if isinstance(tgt, ast.Subscript):
            base = self.ev(tgt.value, st, CODE)
            k = unopt(base.k)
            r = ref(base.t)
            if k.head == "list":
                if isinstance(tgt.slice, ast.Slice):
                    sl = tgt.slice
                    lo = self.as_int(self.ev(sl.lower, st, CODE)) if sl.lower else None
                    hi = self.as_int(self.ev(sl.upper, st, CODE)) if sl.upper else None
                    n = ops.l_len(st, r)
                    lo_, hi_, cnt = ops.slice_bounds(n, lo, hi)
                    src = ref(v.t)
                    m = ops.l_len(st, src)
                    el, sel = ops.l_el(st, r), ops.l_el(st, src)
                    j = bvar("j")
                    hi2 = z3.If(hi_ < lo_, lo_, hi_)
                    n2 = lo_ + m + (n - hi2)
                    new = ops.mk_list_array(st, j, n2, z3.If(j < lo_, z3.Select(el, j),
                                                             z3.If(j < lo_ + m, z3.Select(sel, j - lo_),
                                                                   z3.Select(el, j - m + hi2))))
                    ops.write_list(self, st, r, n2, new, line)
                    return
                i = self.index_term(st, st, r, tgt.slice, self.ev(tgt.slice, st, CODE), CODE)
                self.safety(st, z3.And(0 <= i, i < ops.l_len(st, r)), "store-index", tgt)
                ops.write_list(self, st, r, ops.l_len(st, r), z3.Store(ops.l_el(st, r), i, v.t), line)
                return
            if k.head == "dict":
                key = self.ev(tgt.slice, st, CODE)
                ops.write_dict(self, st, r, z3.Store(ops.d_has(st, r), key.t, z3.BoolVal(True)),
                               z3.Store(ops.d_val(st, r), key.t, v.t), line)
                return
            raise OutOfSubset("subscript store on kind %r (line %s)" % (base.k, line))
        if isinstance(tgt, (ast.Tuple, ast.List)):
            k = v.k
            if k.head == "tuple" and len(k) - 1 == len(tgt.elts):
                for i, e in enumerate(tgt.elts):
                    comp = z3.Select(seq_els(v.t), i)
                    assume_typed(st, comp, k[1 + i], v.h)
                    if isinstance(e, ast.Name) and e.id == "_":
                        continue
                    self.assign(e, SV(comp, k[1 + i], v.h), st, node)
                return
            raise OutOfSubset("unpacking a value of kind %r (line %s)" % (v.k, line))
        raise OutOfSubset("assignment target %s" % type(tgt).__name__)

    def field_store(self, st, attr, r, t, line):
        # constructor: self's own fields are writable (self is fresh for the caller)
        frames = st.frames
        if attr.startswith("g_"):
            st.heap["f_" + attr] = z3.Store(st.field(attr), r, t)
            return
        ok_ctor = [fr for fr in frames if getattr(fr, "ctor_self", None) is not None
                   and z3.eq(simp(r), fr.ctor_self)]
        if ok_ctor:
            st.frames = [fr for fr in frames if fr not in ok_ctor]
            try:
                ops.f_set(self, st, attr, r, t, line)
            finally:
                st.frames = frames
        else:
            ops.f_set(self, st, attr, r, t, line)

    def st_AugAssign(self, node, st):
        tgt = node.target
        load = ast.copy_location(ast.parse(ast.unparse(tgt), mode="eval").body, tgt)
        ast.fix_missing_locations(load)
        cur = self.ev(load, st, CODE)
        if unopt(cur.k).head == "list" and isinstance(node.op, ast.Add):
            call = ast.Call(func=ast.Attribute(value=load, attr="extend", ctx=ast.Load()),
                            args=[node.value], keywords=[])
            ast.copy_location(call, node)
            ast.fix_missing_locations(call)
            self.ev(call, st, CODE)
            return [(st, "next")]
        bo = ast.BinOp(left=load, op=node.op, right=node.value)
        ast.copy_location(bo, node)
        ast.fix_missing_locations(bo)
        v = self.ev(bo, st, CODE)
        self.assign(tgt, v, st, node)
        return [(st, "next")]

    def st_Delete(self, node, st):
        for tgt in node.targets:
            if not isinstance(tgt, ast.Subscript):
                raise OutOfSubset("del of non-subscript")
            base = self.ev(tgt.value, st, CODE)
            k = unopt(base.k)
            r = ref(base.t)
            if k.head == "list" and not isinstance(tgt.slice, ast.Slice):
                i = self.index_term(st, st, r, tgt.slice, self.ev(tgt.slice, st, CODE), CODE)
                self.safety(st, z3.And(0 <= i, i < ops.l_len(st, r)), "del-index", tgt)
                ops.l_delete(self, st, r, i, node.lineno)
            elif k.head == "dict":
                key = self.ev(tgt.slice, st, CODE)
                ops.write_dict(self, st, r, z3.Store(ops.d_has(st, r), key.t, z3.BoolVal(False)),
                               ops.d_val(st, r), node.lineno)
            else:
                raise OutOfSubset("del on kind %r" % (base.k,))
        return [(st, "next")]

    # ------------------------------------------------------------ loops
    def st_While(self, node, st):
        return self.loop(node, st)

    def st_For(self, node, st):
        return self.loop(node, st)

    def assigned_names(self, stmts):
        names = set()
        for s in stmts:
            for n in ast.walk(s):
                if isinstance(n, ast.Name) and isinstance(n.ctx, (ast.Store, ast.Del)):
                    names.add(n.id)
        return names

    def coarse_heap_effects(self, stmts, st):
        """syntactic over-approximation of the heap components a block may write"""
        comps = set()
        for s in stmts:
            for n in ast.walk(s):
                if isinstance(n, ast.Attribute) and isinstance(n.ctx, (ast.Store, ast.Del)):
                    comps.add("f_" + n.attr)
                elif isinstance(n, ast.Subscript) and isinstance(n.ctx, (ast.Store, ast.Del)):
                    comps.update(["list", "dict"])
                elif isinstance(n, ast.Call):
                    f = n.func
                    if isinstance(f, ast.Attribute) and f.attr in MUTATORS:
                        comps.update(MUTATORS[f.attr])
                    con = self.static_contract_of(n)
                    if con is not None:
                        for t in con.get("modifies", []):
                            t = t.strip()
                            if t == "*[]":
                                comps.update(["list", "set", "dict"])
                            elif t.endswith("[]"):
                                comps.update(["list", "set", "dict"])
                            else:
                                comps.add("f_" + t.rsplit(".", 1)[1])
                    elif isinstance(f, ast.Attribute) and f.attr not in MUTATORS:
                        pass
        return comps

    def static_contract_of(self, call):
        f = call.func
        if isinstance(f, ast.Attribute):
            cands = [c for k_, c in self.uni.contracts.items() if k_.endswith("." + f.attr)]
            if len(cands) == 1:
                return cands[0]
            if cands:
                merged = {"modifies": sorted({t for c in cands for t in c.get("modifies", [])})}
                return merged
        elif isinstance(f, ast.Name):
            if f.id in self.uni.contracts:
                return self.uni.contracts[f.id]
            _, con = self.uni.find_contract(f.id, "__init__")
            return con
        return None

    def loop(self, node, st):
        uni = self.uni
        ordn = self.loop_ord[id(node)]
        ab = (self.con.get("abstract_loops") or {}).get(ordn)
        if ab is not None:
            return self.abstract_loop(node, st, ordn, ab)
        spec = (self.con.get("loops") or {}).get(ordn, {})
        invs = [(e if isinstance(e, tuple) else (str(i), e)) for i, e in enumerate(spec.get("inv", []))]
        idx = spec.get("idx", "_k%d" % ordn)
        line = node.lineno
        if node.orelse:
            raise OutOfSubset("loop else clause")
        desc = self.loop_setup(node, st, idx) if isinstance(node, ast.For) else None
        if desc is not None:
            st.env[idx] = SInt(z3.IntVal(0))
            if spec.get("enum") and "enum" in desc:
                st.env[spec["enum"]] = desc["enum"]
        if spec.get("ghost_pre"):
            self.run_ghost(spec["ghost_pre"], st)
        cxl = Ctx(spec=True, pre=self.pre, pre_env=self.pre_env, entry_alloc=self.entry_alloc)

        def inv_env(s):
            env = dict(self.pre_env)
            env.update(s.env)
            return env
        pre_names = self.assigned_names(node.body)
        if isinstance(node, ast.For):
            pre_names |= {n.id for n in ast.walk(node.target) if isinstance(n, ast.Name)}
        for n in sorted(pre_names):
            if n not in st.env and not n.startswith("_k") and n != idx:
                # a name first bound inside the loop: before the first iteration it is unbound (reading it raises
                # NameError in CPython; implicit exceptions are not checked), later it holds what an earlier iteration
                # left: an arbitrary value of its declared kind, so that invariants may mention it
                k_ = self.decl_kinds.get(n, ANY)
                t_ = fresh("leak_" + n, V)
                st.env[n] = SV(t_, k_)
                assume_typed(st, t_, k_)
        for name, src in invs:
            self.oblige("loop%d/inv[%s]/entry" % (ordn, name), st, self.formula(src, st, cxl, inv_env(st), pol=1),
                        line, kind="inv")
        implicit = desc is not None and "bound" in desc and not spec.get("no_implicit_bound")
        # ---- havoc
        body_stmts = node.body
        names = self.assigned_names(body_stmts) | ({idx} if desc is not None else set())
        if isinstance(node, ast.For):
            names |= self.assigned_names([ast.Assign(targets=[node.target], value=ast.Constant(0))]) if False else {
                n.id for n in ast.walk(node.target) if isinstance(n, ast.Name)}
        names |= set(spec.get("ghost_vars", []))
        head = st.fork()
        refined = "modifies" in spec
        if refined:
            targets = self.eval_targets(spec["modifies"], head, inv_env(head))
        else:
            targets = [(c, None) for c in sorted(self.coarse_heap_effects(body_stmts, head))]
        if refined:
            allowed = {}
            for comp, r in targets:
                if r is None:
                    allowed[comp] = "*"
                elif allowed.get(comp) != "*":
                    allowed.setdefault(comp, []).append(r)
            head.frames = head.frames + [Frame("loop%d" % ordn, head.alloc, allowed)]
        a2 = fresh("alloc", IntS)
        head.assume(a2 >= head.alloc)
        head.alloc = a2
        self.havoc_targets(head, targets)
        for n in sorted(names):
            if n in head.env:
                k = head.env[n].k
                t = fresh("hv_" + n, V)
                head.env[n] = SV(t, k)
                assume_typed(head, t, k)
        if desc is not None:
            head.assume(ival(head.env[idx].t) >= 0)
        if implicit:
            # implicit invariant of a counted loop: the counter never passes the number of iterations
            head.assume(self.as_int(head.env[idx]) <= desc["bound"](head))
        for name, src in invs:
            head.assume(self.formula(src, head, cxl, inv_env(head), pol=-1))
        out = []
        # ---- one arbitrary iteration
        sb = head.fork()
        if desc is not None:
            g = desc["guard"](sb)
            sb.assume(g)
            desc["bind"](sb)
        else:
            g = self.truth(sb, self.ev(node.test, sb, CODE))
            sb.assume(g)
        for s, flow in self.block(body_stmts, sb):
            if flow in ("next", "continue"):
                self.oblige("cover/loop%d-body-path" % ordn, s, z3.BoolVal(False), line, kind="cover-path")
                if desc is not None:
                    s.env[idx] = SInt(self.as_int(s.env[idx]) + 1)
                if spec.get("ghost_step"):
                    self.run_ghost(spec["ghost_step"], s)
                if implicit:
                    self.oblige("loop%d/inv[implicit-bound]/preserve" % ordn, s,
                                self.as_int(s.env[idx]) <= desc["bound"](s), line, kind="inv")
                for name, src in invs:
                    self.oblige("loop%d/inv[%s]/preserve" % (ordn, name), s,
                                self.formula(src, s, cxl, inv_env(s), pol=1), line, kind="inv")
            else:
                if refined:
                    s.frames = s.frames[:-1]
                out.append((s, "next"))
        # ---- exit
        se = head.fork()
        for n in sorted(names):
            if n not in se.env and not n.startswith("_k"):
                # a name first bound inside the loop (loop target, local of the body) and read after it: some value the
                # loop left there (an unbound read raises NameError in CPython; implicit exceptions are not checked)
                k_ = self.decl_kinds.get(n, ANY)
                t_ = fresh("leak_" + n, V)
                se.env[n] = SV(t_, k_)
                assume_typed(se, t_, k_)
        if desc is not None:
            se.assume(z3.Not(desc["guard"](se)))
            # after `for x in <tuple or frozen list>:` that is not left by break and whose body does not rebind x, x is
            # the last element (CPython semantics of the loop target), if there was one
            if desc.get("last") and isinstance(node, ast.For) and isinstance(node.target, ast.Name) \
                    and node.target.id not in self.assigned_names(node.body) \
                    and not any(isinstance(n_, ast.Break) for n_ in ast.walk(node)) and node.target.id in se.env:
                n_, el_ = desc["last"](se)
                se.assume(z3.Implies(n_ > 0, se.env[node.target.id].t == el_))
        else:
            se.assume(z3.Not(self.truth(se, self.ev(node.test, se, CODE))))
        if refined:
            se.frames = se.frames[:-1]
        out.append((se, "next"))
        return out

    def abstract_loop(self, node, st, ordn, ab):
        """explicitly abstracted loop (reported as an assumption): havoc what it may modify, skip the body"""
        self.abstracted.append("loop%d of %s abstracted: may modify %s (%s)" % (
            ordn, self.key, ab.get("modifies", []), ab.get("why", "")))
        names = self.assigned_names(node.body) | {n.id for n in ast.walk(getattr(node, "target", ast.Pass()))
                                                  if isinstance(n, ast.Name)}
        env = dict(self.pre_env)
        env.update(st.env)
        targets = self.eval_targets(ab.get("modifies", []), st, env)
        for comp, r in targets:
            self.check_targets_in_frame(st, comp, r, node.lineno, "abstract-loop%d" % ordn)
        a2 = fresh("alloc", IntS)
        st.assume(a2 >= st.alloc)
        st.alloc = a2
        self.havoc_targets(st, targets)
        for n in sorted(names):
            if n in st.env:
                k = st.env[n].k
                t = fresh("hv_" + n, V)
                st.env[n] = SV(t, k)
                assume_typed(st, t, k)
        return [(st, "next")]

    def loop_setup(self, node, st, idx):
        """evaluate the iterable once; return guard/bind closures over the iteration counter idx"""
        it = node.iter
        tgt = node.target

        def k_of(s):
            return self.as_int(s.env[idx])

        def bind_names(s, tgt_node, sv):
            self.assign(tgt_node, sv, s, node)
        if isinstance(it, ast.Call) and isinstance(it.func, ast.Name) and it.func.id == "range":
            args = [self.as_int(self.ev(a, st, CODE)) for a in it.args]
            lo, hi = (z3.IntVal(0), args[0]) if len(args) == 1 else (args[0], args[1])
            return {"guard": lambda s: lo + k_of(s) < hi,
                    "bind": lambda s: bind_names(s, tgt, SInt(lo + k_of(s))),
                    "bound": lambda s: z3.If(hi - lo > 0, hi - lo, 0)}
        if isinstance(it, ast.Call) and isinstance(it.func, ast.Name) and it.func.id == "reversed":
            base = self.ev(it.args[0], st, CODE)
            r = ref(base.t)
            ek = unopt(base.k)[1]
            hb = base.h          # a frozen (observer) list is read in its own heap
            n0 = ops.l_len(hb or st, r)

            def pos(s):
                return n0 - 1 - k_of(s)

            def bind(s):
                t = ops.l_get(hb or s, r, pos(s))
                assume_typed(s, t, ek, hb)
                bind_names(s, tgt, SV(t, ek, hb))
            return {"guard": lambda s: z3.And(pos(s) >= 0, pos(s) < ops.l_len(hb or s, r)), "bind": bind,
                    "bound": lambda s: n0}
        if isinstance(it, ast.Call) and isinstance(it.func, ast.Name) and it.func.id == "enumerate":
            base = self.ev(it.args[0], st, CODE)
            r = ref(base.t)
            ek = unopt(base.k)[1]
            hb = base.h

            def bind(s):
                t = ops.l_get(hb or s, r, k_of(s))
                assume_typed(s, t, ek, hb)
                bind_names(s, tgt.elts[0], SInt(k_of(s)))
                bind_names(s, tgt.elts[1], SV(t, ek, hb))
            return {"guard": lambda s: k_of(s) < ops.l_len(hb or s, r), "bind": bind,
                    "bound": lambda s: ops.l_len(hb or s, r)}
        if isinstance(it, ast.Call) and isinstance(it.func, ast.Name) and it.func.id == "zip":
            bases = [self.ev(a, st, CODE) for a in it.args]
            rs = [ref(b.t) for b in bases]
            eks = [unopt(b.k)[1] for b in bases]
            hbs = [b.h for b in bases]

            def bind(s):
                for e, r, ek, hb in zip(tgt.elts, rs, eks, hbs):
                    t = ops.l_get(hb or s, r, k_of(s))
                    assume_typed(s, t, ek, hb)
                    bind_names(s, e, SV(t, ek, hb))
            return {"guard": lambda s: z3.And([k_of(s) < ops.l_len(hb or s, r) for r, hb in zip(rs, hbs)]),
                    "bind": bind}
        base = self.ev(it, st, CODE)
        k = unopt(base.k)
        if k.head in ("set", "dict", "keys", "values", "items"):
            enum = self.enum_of_set(st, SV(base.t, K("set", k[1]) if k.head == "set" else K("dict", k[1], k[2])))
            r = ref(enum.t)
            n = ops.l_len(st, r)
            el = ops.l_el(st, r)
            dref = ref(base.t)

            def bind(s):
                key = z3.Select(el, k_of(s))
                if k.head in ("set", "dict", "keys"):
                    assume_typed(s, key, k[1])
                    bind_names(s, tgt, SV(key, k[1]))
                elif k.head == "values":
                    t = z3.Select(ops.d_val(s, dref), key)
                    assume_typed(s, t, k[2])
                    bind_names(s, tgt, SV(t, k[2]))
                else:
                    t = z3.Select(ops.d_val(s, dref), key)
                    assume_typed(s, key, k[1])
                    assume_typed(s, t, k[2])
                    bind_names(s, tgt.elts[0], SV(key, k[1]))
                    bind_names(s, tgt.elts[1], SV(t, k[2]))
            # enumeration fixed at loop start (mutating a set/dict while iterating raises in CPython)
            return {"guard": lambda s: k_of(s) < n, "bind": bind, "enum": enum, "bound": lambda s: n}
        if k.head == "iter":
            # continue an iterator object from its current position
            ir = ref(base.t)
            lst = ops.f_get(st, "__it_list", ir)
            pos0 = ival(ops.f_get(st, "__it_pos", ir))
            r0 = ref(lst)
            ek0 = k[1]

            def bind_it(s):
                t = ops.l_get(s, r0, pos0 + k_of(s))
                assume_typed(s, t, ek0)
                bind_names(s, tgt, SV(t, ek0))
            return {"guard": lambda s: pos0 + k_of(s) < ops.l_len(s, r0), "bind": bind_it,
                    "bound": lambda s: z3.If(ops.l_len(s, r0) - pos0 > 0, ops.l_len(s, r0) - pos0, 0)}
        if k.head in ("list", "vtuple"):
            r = ref(base.t)
            ek = k[1] if len(k) > 1 else ANY
            hb = base.h
            view = ops.TupHeap(base.t, hb or st) if k.head == "vtuple" else hb

            def bind(s):
                t = ops.l_get(view or s, r, k_of(s))
                assume_typed(s, t, ek, hb)
                bind_names(s, tgt, SV(t, ek, hb))
            immutable = (k.head == "vtuple") or (hb is not None)

            def last(s):
                n_ = ops.l_len(view or s, r)
                return n_, ops.l_get(view or s, r, n_ - 1)
            return {"guard": lambda s: k_of(s) < ops.l_len(view or s, r), "bind": bind,
                    "bound": lambda s: ops.l_len(view or s, r), "enum": base,
                    "last": last if immutable else None}
        raise OutOfSubset("for loop over kind %r (line %s)" % (base.k, node.lineno))
