"""debug helper: python -m pyvc.dbg <sidecars,comma> <key> <obligation substring> [-h] : split goal conjuncts"""
import importlib, sys, time, z3
from pyvc.state import Universe
from pyvc.execs import Exec

def main():
    mods, key, pat = sys.argv[1].split(','), sys.argv[2], sys.argv[3]
    uni = Universe()
    for m in mods: uni.load_sidecar(importlib.import_module(m))
    ex = Exec(uni, key, uni.contracts[key]); obls = ex.verify()
    for ob in obls:
        if pat not in ob.name: continue
        print("==", ob.name, "hyps", len(ob.hyps))
        if '-h' in sys.argv:
            for i,h in enumerate(ob.hyps): print(i, z3.simplify(h)); print('--')
        g = ob.goal
        parts = g.children() if z3.is_and(g) else [g]
        for p in parts:
            s = z3.Solver(); s.set('timeout', 6000)
            for h in ob.hyps: s.add(h)
            s.add(z3.Not(p)); t=time.time(); r = s.check()
            print(r, '%.2f' % (time.time()-t), str(z3.simplify(p))[:int(sys.argv[4]) if len(sys.argv)>4 and sys.argv[4].isdigit() else 300].replace('\n',' '))
main()
