"""Ownership (frame) checker for C15: no heap write performed while compiling targets a container that belongs to
the parsed input objects (Einsum, Mapping, Architecture, Bindings, Format).

Contract view: every function gets an inferred ownership contract (ownership of each parameter as passed by its call
sites, ownership of the result, ownership of the fields it stores to); the parser classes' getters are the base
contracts (a read of a parser field hands out input-owned references). One obligation per heap-write site:
`the written container is not input-owned`. The inference is a flow-insensitive fixpoint over the AST of every module
under teaal/ (re-read on every run); it over-approximates aliasing (sound for the `not owned` verdict).

Ownership value: (c, e)  c = ownership of the container itself, e = ownership of what it (transitively) contains
  'O' input-owned, 'F' fresh / compiler-owned, 'N' not a container (scalar, IR object)
"""
import ast
from . import extract

PARSER_CLASSES = {"Einsum", "Mapping", "Architecture", "Bindings", "Format"}
MUTATORS = {"append", "extend", "insert", "remove", "pop", "clear", "sort", "reverse", "update", "add", "discard",
            "setdefault", "popitem"}
COPIERS = {"copy", "list", "dict", "set", "tuple", "sorted", "frozenset"}
ELEMENT_PASS = {"items", "values", "keys", "get", "zip", "enumerate", "reversed", "chain", "next", "iter", "max",
                "min", "from_iterable", "intersection", "union", "difference"}


DEPTH = 5


def j1(x, y):
    if "O" in (x, y):
        return "O"
    if "F" in (x, y):
        return "F"
    return "N"


def join(a, b):
    return tuple(j1(x, y) for x, y in zip(a, b))


BOT = ("N",) * DEPTH
OWNED = ("O",) * DEPTH


def sub(o):
    """ownership of an element of a container with ownership o"""
    return o[1:] + (o[-1],)


def wrap(c, elem):
    """a container with ownership c holding elements of ownership elem"""
    return (c,) + elem[:DEPTH - 2] + (j1(elem[DEPTH - 2], elem[DEPTH - 1]),)


def deep(o):
    """collapse: 'O' if anything reachable is owned"""
    return "O" if "O" in o else ("F" if "F" in o else "N")


class Analysis:
    def __init__(self):
        self.funcs = {}          # qual -> (relpath, classname, FunctionDef)
        self.by_name = {}        # method/function name -> [qual]
        self.params = {}         # qual -> {param: own}
        self.returns = {}        # qual -> own
        self.fields = {}         # field name -> own   (fields of non-parser classes)
        self.classes = {}        # class name -> relpath
        self.bases = {}          # class name -> [base names]
        self.field_types = {}    # (class, field) -> annotation AST (from `self.f: T = ...` or `self.f = <annotated param>`)
        self.sites = []          # write sites: dict(qual, line, text, own)
        for rel in extract.all_repo_modules():
            mod = extract.module(rel)
            for cname, cnode in mod.classes.items():
                if cname in self.classes:
                    cname_key = cname          # same class name in two modules (ir/trans Equation): merged conservatively
                self.classes[cname] = rel
                self.bases.setdefault(cname, []).extend(mod.bases(cname))
                for fn in mod.methods(cname):
                    q = "%s:%s.%s" % (rel, cname, fn.name)
                    self.funcs[q] = (rel, cname, fn)
                    self.by_name.setdefault(fn.name, []).append(q)
            for fname, fn in mod.functions.items():
                q = "%s:%s" % (rel, fname)
                self.funcs[q] = (rel, None, fn)
                self.by_name.setdefault(fname, []).append(q)
        self.imports = {}        # module relpath -> {imported name: source module relpath}
        for rel in extract.all_repo_modules():
            tbl = {}
            for n in extract.module(rel).tree.body:
                if isinstance(n, ast.ImportFrom) and n.module and n.module.startswith("teaal"):
                    src = n.module.replace(".", "/") + ".py"
                    for al in n.names:
                        if al.name == "*":
                            try:
                                for cn_ in extract.module(src).classes:
                                    tbl.setdefault(cn_, src)
                            except extract.Missing:
                                pass
                        else:
                            tbl[al.asname or al.name] = src
            self.imports[rel] = tbl
        self.ret_tuples = {}     # qual -> [ownership per position] for functions returning a tuple display
        self.class_vars = {}     # qual -> {variable: {class names}}  (x = SomeClass)
        for q, (rel, cname, fn) in self.funcs.items():
            cv = {}
            for n in ast.walk(fn):
                if isinstance(n, ast.Assign) and len(n.targets) == 1 and isinstance(n.targets[0], ast.Name) \
                        and isinstance(n.value, ast.Name) and n.value.id in self.classes:
                    cv.setdefault(n.targets[0].id, set()).add(n.value.id)
            if cv:
                self.class_vars[q] = cv
        for q, (rel, cname, fn) in self.funcs.items():
            self.params[q] = {a.arg: BOT for a in fn.args.args}
            self.returns[q] = BOT
            if cname:
                anns = {a.arg: a.annotation for a in fn.args.args}
                for n in ast.walk(fn):
                    if isinstance(n, ast.AnnAssign) and isinstance(n.target, ast.Attribute) \
                            and isinstance(n.target.value, ast.Name) and n.target.value.id == "self":
                        self.field_types.setdefault((cname, n.target.attr), n.annotation)
                    if isinstance(n, ast.Assign) and len(n.targets) == 1 and isinstance(n.targets[0], ast.Attribute) \
                            and isinstance(n.targets[0].value, ast.Name) and n.targets[0].value.id == "self":
                        v = n.value
                        if isinstance(v, ast.Name) and anns.get(v.id) is not None:
                            self.field_types.setdefault((cname, n.targets[0].attr), anns[v.id])
                        elif isinstance(v, ast.Call) and isinstance(v.func, ast.Name) and v.func.id in self.classes:
                            self.field_types.setdefault((cname, n.targets[0].attr), ast.Name(id=v.func.id))

    # ------------------------------------------------------------------ light static types (annotation ASTs)
    def mro(self, c):
        out = [c]
        for b in self.bases.get(c, []):
            for x in self.mro(b):
                if x not in out:
                    out.append(x)
        return out

    def subclasses(self, c):
        return [k for k in self.classes if c in self.mro(k)]

    @staticmethod
    def ann_class(ann):
        """class name denoted by an annotation (Optional[X] -> X), else None"""
        if isinstance(ann, ast.Constant) and isinstance(ann.value, str):
            try:
                ann = ast.parse(ann.value, mode="eval").body
            except SyntaxError:
                return None
        if isinstance(ann, ast.Name):
            return ann.id
        if isinstance(ann, ast.Subscript) and isinstance(ann.value, ast.Name) and ann.value.id == "Optional":
            return Analysis.ann_class(ann.slice)
        return None

    @staticmethod
    def ann_elem(ann):
        """annotation of the elements / values of a container annotation"""
        if isinstance(ann, ast.Subscript) and isinstance(ann.value, ast.Name):
            n = ann.value.id
            sl = ann.slice
            if n == "Optional":
                return Analysis.ann_elem(sl)
            args = list(sl.elts) if isinstance(sl, ast.Tuple) else [sl]
            if n in ("List", "Set", "Iterable", "Sequence", "Tuple", "Generator"):
                return args[0]
            if n == "Dict" and len(args) == 2:
                return args[1]
        return None

    def type_of(self, e, tenv, cname):
        if isinstance(e, ast.Name):
            if e.id == "self" and cname:
                return ast.Name(id=cname)
            return tenv.get(e.id)
        if isinstance(e, ast.Attribute):
            t = self.ann_class(self.type_of(e.value, tenv, cname))
            if t:
                for c in self.mro(t):
                    if (c, e.attr) in self.field_types:
                        return self.field_types[(c, e.attr)]
            return None
        if isinstance(e, ast.Subscript) and not isinstance(e.slice, ast.Slice):
            return self.ann_elem(self.type_of(e.value, tenv, cname))
        if isinstance(e, ast.Call):
            f = e.func
            if isinstance(f, ast.Name):
                if f.id in self.classes:
                    return ast.Name(id=f.id)
                if f.id == "cast" and len(e.args) == 2:
                    return e.args[0]
                if f.id in ("list", "sorted", "reversed", "set", "tuple") and e.args:
                    return self.type_of(e.args[0], tenv, cname)
                if f.id == "next" and e.args:
                    return self.ann_elem(self.type_of(e.args[0], tenv, cname))
            if isinstance(f, ast.Attribute):
                if f.attr in ("values",):
                    t = self.type_of(f.value, tenv, cname)
                    el = self.ann_elem(t)
                    return ast.Subscript(value=ast.Name(id="List"), slice=el) if el is not None else None
                if f.attr == "copy":
                    return self.type_of(f.value, tenv, cname)
                rc = self.ann_class(self.type_of(f.value, tenv, cname))
                if isinstance(f.value, ast.Name) and f.value.id in self.classes:
                    rc = f.value.id
                for c in self.resolve(f.attr, rc):
                    fn = self.funcs[c][2]
                    if fn.returns is not None:
                        return fn.returns
        return None

    def is_plain(self, ann):
        """annotation of a value that cannot be an input-owned container: scalar or an object of a teaal class
        (objects are not containers; what they hold is tracked per field)"""
        if ann is None:
            return False
        if isinstance(ann, ast.Constant) and isinstance(ann.value, str):
            try:
                ann = ast.parse(ann.value, mode="eval").body
            except SyntaxError:
                return False
        if isinstance(ann, ast.Constant) and ann.value is None:
            return True
        if isinstance(ann, ast.Name):
            if ann.id in ("str", "int", "bool", "float"):
                return True
            return ann.id in self.classes and ann.id not in PARSER_CLASSES
        if isinstance(ann, ast.Subscript) and isinstance(ann.value, ast.Name) and ann.value.id == "Optional":
            return self.is_plain(ann.slice)
        return False

    def resolve(self, name, recv_class):
        """candidate functions for a call of `name` on a receiver of static class recv_class (None = unknown)"""
        cands = self.by_name.get(name, [])
        if recv_class and recv_class in self.classes:
            ok = set(self.mro(recv_class)) | set(self.subclasses(recv_class))
            sel = [c for c in cands if self.funcs[c][1] in ok]
            if sel:
                return sel
        return list(cands)

    # ------------------------------------------------------------------ fixpoint
    def run(self, max_iter=30):
        for it in range(max_iter):
            self.changed = False
            self.sites = []
            self.site_keys = set()
            for q in self.funcs:
                self.analyze(q)
            if not self.changed:
                break
        self.iterations = it + 1
        return self

    def fkey(self, attr, cls):
        """field key; class-qualified when the receiver's class is known"""
        if cls:
            for c in self.mro(cls):
                if (c, attr) in self.field_types or (c + "." + attr) in self.fields:
                    return c + "." + attr
            return cls + "." + attr
        return "?." + attr

    def fget(self, attr, cls):
        if cls:
            return self.fields.get(self.fkey(attr, cls), BOT)
        v = self.fields.get("?." + attr, BOT)
        for k_, t in self.fields.items():
            if k_.endswith("." + attr):
                v = join(v, t)
        return v

    def upd(self, table, key, val):
        old = table.get(key, BOT)
        new = join(old, val)
        if new != old:
            table[key] = new
            self.changed = True

    def analyze(self, q):
        rel, cname, fn = self.funcs[q]
        env = dict(self.params[q])
        tenv = {a.arg: a.annotation for a in fn.args.args if a.annotation is not None}
        for a in fn.args.args:
            if self.is_plain(a.annotation):
                env[a.arg] = BOT
        is_parser = cname in PARSER_CLASSES
        cx = (q, cname, is_parser, tenv)
        for _ in range(3):      # flow-insensitive: let local joins settle
            self.body(fn.body, env, cx, False)
        self.body(fn.body, env, cx, True)

    def body(self, stmts, env, cx, record):
        for s in stmts:
            self.stmt(s, env, cx, record)

    def cls_of(self, e, cx):
        return self.ann_class(self.type_of(e, cx[3], cx[1]))

    def assign_to(self, tgt, val, env, cx, record, node, vtype=None):
        q, cname, is_parser, tenv = cx
        if isinstance(tgt, ast.Name):
            env[tgt.id] = join(env.get(tgt.id, BOT), val)
            if vtype is not None and tgt.id not in tenv:
                tenv[tgt.id] = vtype
        elif isinstance(tgt, (ast.Tuple, ast.List)):
            for k_, e in enumerate(tgt.elts):
                et = None
                if vtype is not None and isinstance(vtype, ast.Subscript) and isinstance(vtype.slice, ast.Tuple) \
                        and k_ < len(vtype.slice.elts):
                    et = vtype.slice.elts[k_]
                self.assign_to(e, sub(val), env, cx, record, node, et)
        elif isinstance(tgt, ast.Starred):
            self.assign_to(tgt.value, val, env, cx, record, node)
        elif isinstance(tgt, ast.Attribute):
            if not is_parser:
                self.upd(self.fields, self.fkey(tgt.attr, self.cls_of(tgt.value, cx)), val)
            base = self.expr(tgt.value, env, cx)
            if not (isinstance(tgt.value, ast.Name) and tgt.value.id == "self"):
                self.site(q, node, ast.unparse(tgt) + " = ...", base, record, is_parser)
        elif isinstance(tgt, ast.Subscript):
            base = self.expr(tgt.value, env, cx)
            self.site(q, node, ast.unparse(tgt) + " = ...", base, record, is_parser)
            self.taint_elements(tgt.value, val, env, cx)

    def taint_elements(self, cont, val, env, cx):
        add = wrap("N", val)
        if isinstance(cont, ast.Name):
            env[cont.id] = join(env.get(cont.id, BOT), add)
        elif isinstance(cont, ast.Attribute) and not cx[2]:
            self.upd(self.fields, self.fkey(cont.attr, self.cls_of(cont.value, cx)), add)
        elif isinstance(cont, ast.Subscript):
            self.taint_elements(cont.value, wrap("N", val), env, cx)

    def site(self, q, node, text, base, record, is_parser):
        if record and not is_parser:
            key = (q, getattr(node, "lineno", 0), text[:90])
            if key not in self.site_keys:
                self.site_keys.add(key)
                self.sites.append({"func": q, "line": key[1], "text": key[2], "own": base})

    def stmt(self, s, env, cx, record):
        q, cname, is_parser, tenv = cx
        if isinstance(s, ast.Assign):
            self.last_cands = None
            v = self.expr(s.value, env, cx, record=record)
            vt = self.type_of(s.value, tenv, cname)
            for t in s.targets:
                if isinstance(t, ast.Tuple) and isinstance(s.value, ast.Call) and self.last_cands and all(
                        c in self.ret_tuples and len(self.ret_tuples[c]) == len(t.elts) for c in self.last_cands):
                    # per-position ownership of a returned tuple display
                    for k_, e in enumerate(t.elts):
                        o = BOT
                        for c in self.last_cands:
                            o = join(o, self.ret_tuples[c][k_])
                        et = None
                        if isinstance(vt, ast.Subscript) and isinstance(vt.slice, ast.Tuple) and k_ < len(vt.slice.elts):
                            et = vt.slice.elts[k_]
                        self.assign_to(e, BOT if self.is_plain(et) else o, env, cx, record, s, et)
                    continue
                self.assign_to(t, v, env, cx, record, s, vt)
        elif isinstance(s, ast.AnnAssign):
            if isinstance(s.target, ast.Name):
                tenv.setdefault(s.target.id, s.annotation)
            if s.value is not None:
                v = self.expr(s.value, env, cx, record=record)
                self.assign_to(s.target, v, env, cx, record, s, s.annotation)
        elif isinstance(s, ast.AugAssign):
            v = self.expr(s.value, env, cx, record=record)
            if isinstance(s.target, ast.Subscript):
                cont = self.expr(s.target.value, env, cx)
                self.site(q, s, ast.unparse(s.target) + " op= ...", cont, record, is_parser)
            elif isinstance(s.op, ast.Add) and isinstance(s.value, (ast.List, ast.ListComp, ast.Call)) \
                    and self.expr(s.target, env, cx)[0] in ("O", "F") and v[0] in ("O", "F"):
                self.site(q, s, ast.unparse(s.target) + " += ...", self.expr(s.target, env, cx), record, is_parser)
            self.assign_to(s.target, v, env, cx, False, s)
        elif isinstance(s, ast.Delete):
            for t in s.targets:
                if isinstance(t, ast.Subscript):
                    base = self.expr(t.value, env, cx)
                    self.site(q, s, "del " + ast.unparse(t), base, record, is_parser)
        elif isinstance(s, ast.Expr):
            self.expr(s.value, env, cx, record=record)
        elif isinstance(s, ast.Return):
            if s.value is not None:
                self.upd(self.returns, q, self.expr(s.value, env, cx, record=record))
                if isinstance(s.value, ast.Tuple):
                    owns = [self.expr(x, env, cx) for x in s.value.elts]
                    cur = self.ret_tuples.get(q)
                    if cur is None or len(cur) != len(owns):
                        new = owns if cur is None else None
                    else:
                        new = [join(a_, b_) for a_, b_ in zip(cur, owns)]
                    if new is not None and new != cur:
                        self.ret_tuples[q] = new
                        self.changed = True
                elif q in self.ret_tuples:
                    pass
        elif isinstance(s, (ast.For, ast.AsyncFor)):
            it = self.expr(s.iter, env, cx, record=record)
            itype = self.type_of(s.iter, tenv, cname)
            et = self.ann_elem(itype)
            if isinstance(s.iter, ast.Call) and isinstance(s.iter.func, ast.Attribute) and s.iter.func.attr == "items":
                dt = self.type_of(s.iter.func.value, tenv, cname)
                vt_ = self.ann_elem(dt)
                et = ast.Subscript(value=ast.Name(id="Tuple"), slice=ast.Tuple(elts=[ast.Name(id="str"), vt_])) \
                    if vt_ is not None else None
            self.assign_to(s.target, sub(it), env, cx, False, s, et)
            self.body(s.body, env, cx, record)
            self.body(s.orelse, env, cx, record)
        elif isinstance(s, ast.While):
            self.expr(s.test, env, cx, record=record)
            self.body(s.body, env, cx, record)
        elif isinstance(s, ast.If):
            self.expr(s.test, env, cx, record=record)
            self.body(s.body, env, cx, record)
            self.body(s.orelse, env, cx, record)
        elif isinstance(s, ast.With):
            self.body(s.body, env, cx, record)
        elif isinstance(s, ast.FunctionDef):
            self.body(s.body, env, cx, record)

    # ------------------------------------------------------------------ expressions
    def expr(self, e, env, cx, record=False):
        q, cname, is_parser, tenv = cx
        if e is None or isinstance(e, ast.Constant):
            return BOT
        if isinstance(e, ast.Name):
            if self.is_plain(tenv.get(e.id)):
                return BOT
            return env.get(e.id, BOT)
        if isinstance(e, ast.Attribute):
            base = self.expr(e.value, env, cx, record)
            if self.is_plain(self.type_of(e, tenv, cname)):
                return BOT
            if isinstance(e.value, ast.Name) and e.value.id == "self" and is_parser:
                return OWNED           # a parser object's own field: the input-owned root
            rc = self.cls_of(e.value, cx)
            if rc in PARSER_CLASSES:
                return OWNED
            if e.attr == "children":
                return sub(base)
            f = self.fget(e.attr, rc)
            if rc is None and "O" in base:
                f = join(f, OWNED)     # attribute of something reached from an input-owned structure
            return f
        if isinstance(e, ast.Subscript):
            base = self.expr(e.value, env, cx, record)
            self.expr(e.slice, env, cx, record)
            if isinstance(e.slice, ast.Slice):
                return ("F" if base[0] != "N" else "N",) + base[1:]
            return sub(base)
        if isinstance(e, (ast.List, ast.Tuple, ast.Set)):
            el = BOT
            for x in e.elts:
                el = join(el, self.expr(x, env, cx, record))
            return wrap("F", el)
        if isinstance(e, ast.Dict):
            el = BOT
            for k_, v_ in zip(e.keys, e.values):
                v = self.expr(v_, env, cx, record)
                el = join(el, sub(v) if k_ is None else v)
            return wrap("F", el)
        if isinstance(e, (ast.ListComp, ast.SetComp, ast.GeneratorExp, ast.DictComp)):
            env2 = dict(env)
            cx2 = (q, cname, is_parser, dict(tenv))
            for g in e.generators:
                it = self.expr(g.iter, env2, cx2, record)
                self.assign_to(g.target, sub(it), env2, cx2, False, e,
                               self.ann_elem(self.type_of(g.iter, cx2[3], cname)))
                for c in g.ifs:
                    self.expr(c, env2, cx2, record)
            v = self.expr(e.value if isinstance(e, ast.DictComp) else e.elt, env2, cx2, record)
            return wrap("F", v)
        if isinstance(e, ast.IfExp):
            self.expr(e.test, env, cx, record)
            return join(self.expr(e.body, env, cx, record), self.expr(e.orelse, env, cx, record))
        if isinstance(e, ast.BoolOp):
            v = BOT
            for x in e.values:
                v = join(v, self.expr(x, env, cx, record))
            return v
        if isinstance(e, ast.BinOp):
            a = self.expr(e.left, env, cx, record)
            b = self.expr(e.right, env, cx, record)
            if isinstance(e.op, (ast.Add, ast.BitOr, ast.BitAnd, ast.Sub)) and (a[0] != "N" or b[0] != "N"):
                return wrap("F", join(sub(a), sub(b)))
            return BOT
        if isinstance(e, (ast.UnaryOp, ast.Compare, ast.JoinedStr, ast.FormattedValue)):
            for ch in ast.iter_child_nodes(e):
                if isinstance(ch, ast.expr):
                    self.expr(ch, env, cx, record)
            return BOT
        if isinstance(e, ast.Starred):
            return self.expr(e.value, env, cx, record)
        if isinstance(e, ast.Call):
            return self.call(e, env, cx, record)
        return BOT

    def call(self, e, env, cx, record):
        q, cname, is_parser, tenv = cx
        args = [self.expr(a, env, cx, record) for a in e.args]
        kwargs = {k.arg: self.expr(k.value, env, cx, record) for k in e.keywords}
        f = e.func
        name = f.id if isinstance(f, ast.Name) else (f.attr if isinstance(f, ast.Attribute) else None)
        recv = self.expr(f.value, env, cx, record) if isinstance(f, ast.Attribute) else None
        rc = self.cls_of(f.value, cx) if isinstance(f, ast.Attribute) else None
        if isinstance(f, ast.Attribute) and isinstance(f.value, ast.Name) and f.value.id in self.classes:
            rc = f.value.id
        if isinstance(f, ast.Attribute) and isinstance(f.value, ast.Call) and isinstance(f.value.func, ast.Name) \
                and f.value.func.id == "super" and cname:
            # super().m(...): the method of the nearest base class that defines it
            for b in self.mro(cname)[1:]:
                cs = [c for c in self.by_name.get(name, []) if self.funcs[c][1] == b]
                if cs:
                    for c in cs:
                        self.bind_args(c, args, kwargs, skip_self=True)
                    return join(BOT, self.returns[cs[0]]) if not self.is_plain(self.funcs[cs[0]][2].returns) else BOT
            return BOT
        if isinstance(f, ast.Name) and name in self.class_vars.get(q, {}):
            # call of a variable that holds a class: a constructor call of each candidate class
            for cls in self.class_vars[q][name]:
                self.construct(cls, q, args, kwargs)
            return BOT
        user_recv = rc in self.classes if rc else False
        if name == "deepcopy":
            return ("F",) * DEPTH
        if isinstance(f, ast.Attribute) and name in MUTATORS and not user_recv and recv is not None \
                and (recv[0] != "N" or not self.by_name.get(name)):
            # in-place mutation of a builtin container
            self.site(q, e, ast.unparse(f) + "(...)", recv, record, is_parser)
            for a in args:
                self.taint_elements(f.value, a, env, cx)
            return sub(recv) if name in ("pop", "setdefault", "popitem") else BOT
        if name in COPIERS and (isinstance(f, ast.Name) or (recv is not None and name == "copy" and not user_recv)):
            src = recv if (recv is not None and name == "copy") else (args[0] if args else BOT)
            return ("F" if src != BOT or name != "copy" else "N",) + src[1:]
        if name in ELEMENT_PASS and not user_recv and not (isinstance(f, ast.Name) and name in self.by_name):
            src = BOT
            for a in ([recv] if recv is not None else []) + args:
                src = join(src, a)
            if name in ("get", "next", "max", "min"):
                return sub(src)
            if name in ("items", "zip", "enumerate"):
                # a fresh sequence of fresh tuples of the elements
                return wrap("F", wrap("F", sub(src)))
            return ("F",) + src[1:]
        if isinstance(f, ast.Name) and name in ("str", "int", "len", "float", "bool", "isinstance", "repr", "hash",
                                                "print", "range", "type", "cast", "any", "all", "sum", "abs"):
            if name == "cast" and len(args) == 2:
                return args[1]
            return BOT
        if isinstance(f, ast.Name) and name in self.classes:
            self.construct(name, q, args, kwargs)
            return BOT        # an IR object is not a container; what it holds is tracked per field
        cands = self.resolve(name, rc) if name else []
        if isinstance(f, ast.Name):
            cands = [c for c in cands if self.funcs[c][1] is None] or []
        if not cands:
            src = BOT
            for a in args + ([recv] if recv is not None else []):
                src = join(src, a)
            return BOT if src == BOT else ("F",) + src[1:]      # external function: may return what it was given
        res = BOT
        self.last_cands = list(cands)
        for c in cands:
            rel, cn, fn = self.funcs[c]
            static = any(isinstance(d, ast.Name) and d.id in ("staticmethod",) for d in fn.decorator_list)
            is_method = cn is not None and not static
            self.bind_args(c, args, kwargs, skip_self=is_method)
            if not self.is_plain(fn.returns):
                res = join(res, self.returns[c])
        return res

    def construct(self, cls, q, args, kwargs):
        """bind constructor arguments: the class of that name visible from the caller's module; the nearest
        __init__ up the hierarchy"""
        caller_rel = self.funcs[q][0]
        inits = [c for c in self.by_name.get("__init__", []) if self.funcs[c][1] in self.mro(cls)]
        own = [c for c in inits if self.funcs[c][1] == cls]
        if len(own) > 1:
            pref = self.imports.get(caller_rel, {}).get(cls)
            sel = [c for c in own if pref and self.funcs[c][0] == pref]
            own = sel or [c for c in own if self.funcs[c][0].split("/")[1] == caller_rel.split("/")[1]] or own
        if not own:
            for b in self.mro(cls)[1:]:
                own = [c for c in inits if self.funcs[c][1] == b]
                if own:
                    break
        for c in own:
            self.bind_args(c, args, kwargs, skip_self=True)

    def bind_args(self, c, args, kwargs, skip_self):
        rel, cn, fn = self.funcs[c]
        ps = [a.arg for a in fn.args.args]
        if skip_self and ps:
            ps = ps[1:]
        for p_, a in zip(ps, args):
            self.upd(self.params[c], p_, a)
        for k_, a in kwargs.items():
            if k_ in self.params[c]:
                self.upd(self.params[c], k_, a)


def write_sites():
    return Analysis().run()
