"""Extraction of the real functions from /repo's working tree (re-read on every run).

What extraction drops, exactly: docstrings (a leading string-constant expression
statement of a function/class body), comments (not in the AST), `# pragma` markers
(comments).  Type annotations are kept and used to pick receiver classes for callee
contract lookup.  Nothing else is dropped: a statement the engine cannot encode raises
OutOfSubset and the run is undecided, never green.
"""
import ast
import hashlib
import os

REPO = os.environ.get("TEAAL_REPO", "/repo")


class Missing(Exception):
    """contract target missing (e.g. renamed function): undecided, not a violation"""


class Module:
    def __init__(self, relpath):
        self.relpath = relpath
        self.path = os.path.join(REPO, relpath)
        if not os.path.exists(self.path):
            raise Missing("module missing: " + relpath)
        with open(self.path) as f:
            self.source = f.read()
        self.tree = ast.parse(self.source, filename=self.path)
        self.classes = {}
        self.functions = {}
        for node in self.tree.body:
            if isinstance(node, ast.ClassDef):
                self.classes[node.name] = node
            elif isinstance(node, (ast.FunctionDef,)):
                self.functions[node.name] = node

    def bases(self, cname):
        out = []
        for b in self.classes[cname].bases:
            if isinstance(b, ast.Name):
                out.append(b.id)
            elif isinstance(b, ast.Attribute):
                out.append(b.attr)
        return out

    def func(self, qual):
        """qual = 'Class.method' or 'function'; private names given unmangled ('Class.__m')."""
        if "." in qual:
            cname, mname = qual.split(".", 1)
            if cname not in self.classes:
                raise Missing("class missing: %s in %s" % (cname, self.relpath))
            for node in self.classes[cname].body:
                if isinstance(node, ast.FunctionDef) and node.name == mname:
                    return node
            raise Missing("function missing: %s in %s" % (qual, self.relpath))
        if qual not in self.functions:
            raise Missing("function missing: %s in %s" % (qual, self.relpath))
        return self.functions[qual]

    def methods(self, cname):
        return [n for n in self.classes[cname].body if isinstance(n, ast.FunctionDef)]


_cache = {}


def module(relpath):
    if relpath not in _cache:
        _cache[relpath] = Module(relpath)
    return _cache[relpath]


def clear_cache():
    _cache.clear()


def strip_doc(body):
    if body and isinstance(body[0], ast.Expr) and isinstance(body[0].value, ast.Constant) \
            and isinstance(body[0].value.value, str):
        return body[1:]
    return body


def src_hash(fnode):
    clone = ast.parse(ast.unparse(fnode)).body[0]
    clone.body = strip_doc(clone.body) or [ast.Pass()]
    return hashlib.sha256(ast.dump(clone).encode()).hexdigest()[:16]


def is_static(fnode):
    for d in fnode.decorator_list:
        if isinstance(d, ast.Name) and d.id in ("staticmethod",):
            return True
    return False


def all_repo_modules(sub="teaal"):
    out = []
    for root, _, files in os.walk(os.path.join(REPO, sub)):
        for f in sorted(files):
            if f.endswith(".py"):
                out.append(os.path.relpath(os.path.join(root, f), REPO))
    return sorted(out)
