"""pyvc: verification-condition generator for a Python subset, sidecar contracts, z3/cvc5 back ends."""
