"""Structural (syntactic) lemmas over /repo's AST, recomputed on every run. Each returns driver.Extra objects."""
import ast
import os
from . import extract


def attr_stores_not_on_self(whitelist=()):
    """encapsulation lemma: every attribute store in teaal is `self.x = ...` (so a class's fields are written
    only by its own methods). whitelist: (relpath, unparsed target) pairs that are known and irrelevant."""
    bad = []
    for rel in extract.all_repo_modules():
        tree = extract.module(rel).tree
        for n in ast.walk(tree):
            if isinstance(n, ast.Attribute) and isinstance(n.ctx, (ast.Store, ast.Del)):
                if not (isinstance(n.value, ast.Name) and n.value.id == "self"):
                    if (rel, ast.unparse(n)) not in whitelist:
                        bad.append("%s:%d %s" % (rel, n.lineno, ast.unparse(n)))
            if isinstance(n, ast.Call) and isinstance(n.func, ast.Name) and n.func.id in ("setattr", "delattr", "exec", "eval"):
                bad.append("%s:%d %s" % (rel, n.lineno, ast.unparse(n)[:60]))
            if isinstance(n, (ast.Global, ast.Nonlocal)):
                bad.append("%s:%d %s" % (rel, n.lineno, type(n).__name__))
    return bad


def no_exception_handlers():
    bad = []
    for rel in extract.all_repo_modules():
        for n in ast.walk(extract.module(rel).tree):
            if isinstance(n, ast.Try) or (hasattr(ast, "TryStar") and isinstance(n, getattr(ast, "TryStar"))):
                bad.append("%s:%d try" % (rel, n.lineno))
            if isinstance(n, ast.Attribute) and n.attr == "suppress":
                bad.append("%s:%d contextlib.suppress" % (rel, n.lineno))
    return bad


def methods_storing_fields(rel, cname, containers=None):
    """{method name: set(fields stored on self)} for one class; in-place mutation (`self.f.append`) counts
    for fields in `containers` (None = every field)"""
    m = extract.module(rel)
    out = {}
    for fn in m.methods(cname):
        fields = set()
        for n in ast.walk(fn):
            if isinstance(n, ast.Attribute) and isinstance(n.ctx, (ast.Store, ast.Del)) \
                    and isinstance(n.value, ast.Name) and n.value.id == "self":
                fields.add(n.attr)
            # in-place mutation of a field's container: self.f.append(...), self.f[...] = ...
            if isinstance(n, ast.Call) and isinstance(n.func, ast.Attribute) and isinstance(n.func.value, ast.Attribute) \
                    and isinstance(n.func.value.value, ast.Name) and n.func.value.value.id == "self" \
                    and n.func.attr in ("append", "extend", "insert", "remove", "pop", "clear", "sort", "reverse",
                                        "add", "discard", "update", "setdefault"):
                if containers is None or n.func.value.attr in containers:
                    fields.add(n.func.value.attr + "[]")
            if isinstance(n, ast.Subscript) and isinstance(n.ctx, (ast.Store, ast.Del)) \
                    and isinstance(n.value, ast.Attribute) and isinstance(n.value.value, ast.Name) \
                    and n.value.value.id == "self":
                fields.add(n.value.attr + "[]")
        if fields:
            out[fn.name] = fields
    return out


def call_sites(method_names, exclude_tests=True):
    """[(relpath, enclosing qualified function, lineno, method)] of calls `<expr>.<method>(...)`"""
    out = []
    for rel in extract.all_repo_modules():
        tree = extract.module(rel).tree
        for cls in [n for n in tree.body if isinstance(n, ast.ClassDef)]:
            for fn in [n for n in cls.body if isinstance(n, ast.FunctionDef)]:
                for n in ast.walk(fn):
                    if isinstance(n, ast.Call) and isinstance(n.func, ast.Attribute) and n.func.attr in method_names:
                        out.append((rel, cls.name + "." + fn.name, n.lineno, n.func.attr, ast.unparse(n.func.value)))
    return out


def constructor_sites(cname):
    out = []
    for rel in extract.all_repo_modules():
        tree = extract.module(rel).tree
        for cls in [n for n in tree.body if isinstance(n, ast.ClassDef)]:
            for fn in [n for n in cls.body if isinstance(n, ast.FunctionDef)]:
                loops = []

                def visit(node, in_loop):
                    for ch in ast.iter_child_nodes(node):
                        il = in_loop or isinstance(node, (ast.For, ast.While))
                        if isinstance(ch, ast.Call) and isinstance(ch.func, ast.Name) and ch.func.id == cname:
                            out.append((rel, cls.name + "." + fn.name, ch.lineno, il))
                        visit(ch, il)
                visit(fn, False)
    return out


def class_hierarchy(uni):
    """the subclass relation the sidecars declare (BASES) is a correct and closed abstraction of the repository's:
    (a) every declared base of a declared class is an ancestor of that class in the repository (intermediate
    classes may be skipped); (b) every repository class that descends from a declared class is declared too, unless
    it is never instantiated anywhere in teaal/ (an abstract intermediate) or the sidecar lists it in
    HIERARCHY_OUT_OF_SCOPE with a reason (reported as an assumption). Without (b), typing a value as `declared
    class` would silently leave out the instances of the undeclared subclass. Returns (ok, detail, checked)."""
    where = {}
    for rel in extract.all_repo_modules():
        for cname in extract.module(rel).classes:
            where.setdefault(cname, []).append(rel)

    def locate(real, hint=None):
        if hint:
            return hint
        c = where.get(real, [])
        return c[0] if len(c) == 1 else None

    def repo_bases(rel, real):
        out = []
        m = extract.module(rel)
        for b in m.bases(real):
            # a base defined in the same module wins; else a unique class of that name
            if b in m.classes:
                out.append((rel, b))
            elif locate(b):
                out.append((locate(b), b))
        return out

    def ancestors(rel, real, seen=None):
        seen = seen if seen is not None else set()
        for rb in repo_bases(rel, real):
            if rb not in seen:
                seen.add(rb)
                ancestors(rb[0], rb[1], seen)
        return seen
    bad, checked = [], 0
    declared = {}      # (rel, real) -> sidecar name
    for cname in uni.bases:
        real = uni.class_alias.get(cname, cname)
        rel = locate(real, uni.modules.get(cname))
        if rel is None:
            continue
        if real not in extract.module(rel).classes:
            bad.append("%s: class not found in %s" % (cname, rel))
            continue
        declared[(rel, real)] = cname
    for (rel, real), cname in declared.items():
        anc = {a[1] for a in ancestors(rel, real)}
        checked += 1
        for b in uni.bases[cname]:
            if uni.class_alias.get(b, b) not in anc:
                bad.append("%s: the sidecar declares base %s, which is not an ancestor in the repository (bases there: %s)"
                           % (cname, b, extract.module(rel).bases(real)))
    # (b) closure. Roots listed in a sidecar's CLOSED_HIERARCHIES must have every repository descendant declared
    # (a failure otherwise); for the other declared classes the undeclared descendants are returned as notes and
    # reported as an assumption ("values typed as X are instances of the declared subclasses only").
    closed = set(getattr(uni, "closed_hierarchies", ()))
    oos = getattr(uni, "hierarchy_out_of_scope", {})
    notes = {}
    for rel in extract.all_repo_modules():
        m = extract.module(rel)
        for cname in m.classes:
            if (rel, cname) in declared or cname in oos or (rel + ":" + cname) in oos:
                continue
            hit = [declared[a] for a in ancestors(rel, cname) if a in declared]
            if not hit:
                continue
            roots = [h for h in hit if h in closed]
            if roots:
                bad.append("%s (%s) descends from %s (declared closed) but is not declared in the sidecar's BASES"
                           % (cname, rel, roots[0]))
            else:
                top = [h for h in hit if not uni.bases.get(h)] or hit
                notes.setdefault(top[0], []).append(cname)
    return (not bad, "; ".join(bad[:6]), checked, notes)
