"""Structural (syntactic) lemmas over /repo's AST, recomputed on every run. Each returns driver.Extra objects."""
import ast
import os
from . import extract


def attr_stores_not_on_self(whitelist=()):
    """encapsulation lemma: every attribute store in teaal is `self.x = ...` (so a class's fields are written
    only by its own methods). whitelist: (relpath, unparsed target) pairs that are known and irrelevant."""
    bad = []
    for rel in extract.all_repo_modules():
        tree = extract.module(rel).tree
        for n in ast.walk(tree):
            if isinstance(n, ast.Attribute) and isinstance(n.ctx, (ast.Store, ast.Del)):
                if not (isinstance(n.value, ast.Name) and n.value.id == "self"):
                    if (rel, ast.unparse(n)) not in whitelist:
                        bad.append("%s:%d %s" % (rel, n.lineno, ast.unparse(n)))
            if isinstance(n, ast.Call) and isinstance(n.func, ast.Name) and n.func.id in ("setattr", "delattr", "exec", "eval"):
                bad.append("%s:%d %s" % (rel, n.lineno, ast.unparse(n)[:60]))
            if isinstance(n, (ast.Global, ast.Nonlocal)):
                bad.append("%s:%d %s" % (rel, n.lineno, type(n).__name__))
    return bad


def no_exception_handlers():
    bad = []
    for rel in extract.all_repo_modules():
        for n in ast.walk(extract.module(rel).tree):
            if isinstance(n, ast.Try) or (hasattr(ast, "TryStar") and isinstance(n, getattr(ast, "TryStar"))):
                bad.append("%s:%d try" % (rel, n.lineno))
            if isinstance(n, ast.Attribute) and n.attr == "suppress":
                bad.append("%s:%d contextlib.suppress" % (rel, n.lineno))
    return bad


def methods_storing_fields(rel, cname, containers=None):
    """{method name: set(fields stored on self)} for one class; in-place mutation (`self.f.append`) counts
    for fields in `containers` (None = every field)"""
    m = extract.module(rel)
    out = {}
    for fn in m.methods(cname):
        fields = set()
        for n in ast.walk(fn):
            if isinstance(n, ast.Attribute) and isinstance(n.ctx, (ast.Store, ast.Del)) \
                    and isinstance(n.value, ast.Name) and n.value.id == "self":
                fields.add(n.attr)
            # in-place mutation of a field's container: self.f.append(...), self.f[...] = ...
            if isinstance(n, ast.Call) and isinstance(n.func, ast.Attribute) and isinstance(n.func.value, ast.Attribute) \
                    and isinstance(n.func.value.value, ast.Name) and n.func.value.value.id == "self" \
                    and n.func.attr in ("append", "extend", "insert", "remove", "pop", "clear", "sort", "reverse",
                                        "add", "discard", "update", "setdefault"):
                if containers is None or n.func.value.attr in containers:
                    fields.add(n.func.value.attr + "[]")
            if isinstance(n, ast.Subscript) and isinstance(n.ctx, (ast.Store, ast.Del)) \
                    and isinstance(n.value, ast.Attribute) and isinstance(n.value.value, ast.Name) \
                    and n.value.value.id == "self":
                fields.add(n.value.attr + "[]")
        if fields:
            out[fn.name] = fields
    return out


def call_sites(method_names, exclude_tests=True):
    """[(relpath, enclosing qualified function, lineno, method)] of calls `<expr>.<method>(...)`"""
    out = []
    for rel in extract.all_repo_modules():
        tree = extract.module(rel).tree
        for cls in [n for n in tree.body if isinstance(n, ast.ClassDef)]:
            for fn in [n for n in cls.body if isinstance(n, ast.FunctionDef)]:
                for n in ast.walk(fn):
                    if isinstance(n, ast.Call) and isinstance(n.func, ast.Attribute) and n.func.attr in method_names:
                        out.append((rel, cls.name + "." + fn.name, n.lineno, n.func.attr, ast.unparse(n.func.value)))
    return out


def constructor_sites(cname):
    out = []
    for rel in extract.all_repo_modules():
        tree = extract.module(rel).tree
        for cls in [n for n in tree.body if isinstance(n, ast.ClassDef)]:
            for fn in [n for n in cls.body if isinstance(n, ast.FunctionDef)]:
                loops = []

                def visit(node, in_loop):
                    for ch in ast.iter_child_nodes(node):
                        il = in_loop or isinstance(node, (ast.For, ast.While))
                        if isinstance(ch, ast.Call) and isinstance(ch.func, ast.Name) and ch.func.id == cname:
                            out.append((rel, cls.name + "." + fn.name, ch.lineno, il))
                        visit(ch, il)
                visit(fn, False)
    return out
