"""Calls: builtins, container methods, constructors, contract calls."""
import ast
import z3
from .sorts import *   # noqa
from .state import SV, OutOfSubset, Exit, Frame
from . import ops, extract
from .ops import typed, assume_typed, unopt, bvar, bvarV
from .evalx import SInt, SBool, SStr, Ctx, simp


class CallMixin:
    def ev_Call(self, node, st, cx):
        f = node.func
        if isinstance(f, ast.Name):
            return self.call_name(f.id, node, st, cx)
        if isinstance(f, ast.Attribute):
            return self.call_attr(f, node, st, cx)
        raise OutOfSubset("call of a computed function (line %s)" % node.lineno)

    def args_of(self, node, st, cx):
        if any(isinstance(a, ast.Starred) for a in node.args):
            raise OutOfSubset("star args")
        args = [self.ev(a, st, cx) for a in node.args]
        kwargs = {}
        for kw in node.keywords:
            if kw.arg is None:
                raise OutOfSubset("**kwargs")
            kwargs[kw.arg] = self.ev(kw.value, st, cx)
        return args, kwargs

    # ------------------------------------------------------------ plain names
    def call_name(self, name, node, st, cx):
        uni = self.uni
        name = (self.con.get("aliases") or {}).get(name, name)
        if name in ("all", "any") and len(node.args) == 1:
            return self.quant(node, st, cx, name == "all")
        if name == "old":
            if not cx.spec or cx.pre is None:
                raise OutOfSubset("old() outside a two-state contract")
            pre = cx.pre.fork()
            pre.alloc = cx.pre.alloc
            env = dict(cx.pre_env)
            for k_, v_ in st.env.items():      # bound variables of enclosing quantifiers
                if k_ not in env:
                    env[k_] = v_
            pre.env = env
            pre.pc = st.pc       # share: typing facts learnt while reading the old heap are kept
            res = self.ev(node.args[0], pre, Ctx(spec=True, pre=None))
            # the value lives in the old heap (`pre` also holds what evaluating the expression allocated)
            return SV(res.t, res.k, res.h if res.h is not None else pre)
        if name == "implies":
            from .evalx import Scoped
            a = self.truth(st, self.ev(node.args[0], st, cx.flip()))
            sc = Scoped(st)
            sc.push(a)
            b = self.truth(st, self.ev(node.args[1], st, cx))
            sc.close()
            return SBool(z3.Implies(a, b))
        if name == "fresh":
            v = self.ev(node.args[0], st, cx)
            if cx.entry_alloc is None:
                raise OutOfSubset("fresh() without entry state")
            return SBool(z3.And(is_VRef(v.t), ref(v.t) >= cx.entry_alloc))
        if name == "same_ref":
            a, b = self.ev(node.args[0], st, cx), self.ev(node.args[1], st, cx)
            return SBool(a.t == b.t)
        if name == "distinct":
            v = self.ev(node.args[0], st, cx)
            return SBool(ops.l_distinct(self.R(st, v), ref(v.t)))
        if name == "forall" or name == "exists":
            lam = node.args[0]
            from .evalx import Binder
            with Binder(st) as b_:
                b_.snap()
                bvs = []
                for a in lam.args.args:
                    if a.arg.startswith("i_") or a.arg in ("i", "j", "k", "n", "m"):
                        b = bvar(a.arg)
                        st.env[a.arg] = SInt(b)
                    else:
                        b = bvarV(a.arg)
                        st.env[a.arg] = SV(b, ANY)
                    bvs.append(b)
                body = self.truth(st, self.ev(lam.body, st, cx))
            return SBool(z3.ForAll(bvs, body) if name == "forall" else z3.Exists(bvs, body))
        if name in uni.uf:
            fn = uni.uf[name]
            args = [self.ev(a, st, cx) for a in node.args]
            zs = []
            for i, a in enumerate(args):
                s = fn.domain(i)
                zs.append(a.t if s == V else self.as_int(a) if s == IntS else self.as_str(a) if s == StrS
                          else simp(bval(a.t)))
            r = fn(*zs)
            rs = fn.range()
            if rs == V:
                return SV(r, ANY)
            if rs == IntS:
                return SInt(r)
            if rs == StrS:
                return SStr(r)
            return SBool(r)
        if name in uni.specs:
            return self.inline_spec(name, node, st, cx)
        if name == "len":
            v = self.ev(node.args[0], st, cx)
            k = unopt(v.k)
            if k.head in ("list", "vtuple"):
                return SInt(ops.l_len(self.R(st, v), ref(v.t)))
            if k.head == "str":
                return SInt(z3.Length(self.as_str(v)))
            if k.head == "set":
                return SInt(set_card(ops.s_mem(self.R(st, v), ref(v.t))))
            if k.head == "tuple":
                return SInt(z3.IntVal(len(k) - 1))
            if k.head == "vtuple":
                return SInt(seq_len(v.t))
            raise OutOfSubset("len of kind %r (line %s)" % (v.k, node.lineno))
        if name == "isinstance":
            v = self.ev(node.args[0], st, cx)
            return SBool(self.isinstance_f(st, v, node.args[1]))
        if name == "str":
            v = self.ev(node.args[0], st, cx)
            if v.k.head == "str":
                return v
            if v.k.head == "int":
                return SStr(str_of_int(self.as_int(v)))
            return SStr(str_of_any(v.t))
        if name == "repr":
            v = self.ev(node.args[0], st, cx)
            return SStr(str_of_any(v.t))
        if name == "int":
            v = self.ev(node.args[0], st, cx)
            if v.k.head == "int":
                return v
            if v.k.head == "str":
                return SInt(int_of_str(self.as_str(v)))
            if v.k.head in ("any", "opaque"):
                # value of unknown kind (e.g. a lark Token): its own integer if it is one, int(str) if it is a string,
                # an uninterpreted function of the value otherwise
                if "int_of_any" not in uni.uf:
                    uni.uf["int_of_any"] = z3.Function("int_of_any", V, IntS)
                return SInt(z3.If(is_VInt(v.t), ival(v.t), z3.If(is_VStr(v.t), int_of_str(sval(v.t)), uni.uf["int_of_any"](v.t))))
            raise OutOfSubset("int() of %r" % (v.k,))
        if name == "bool":
            return SBool(self.truth(st, self.ev(node.args[0], st, cx)))
        if name == "deepcopy" and len(node.args) == 1:
            # copy.deepcopy of a value of an opaque collaborator class: a new value that every zero-argument observer
            # declared for that class cannot tell from the original (assumed; justified by the structural lemma that no
            # teaal class customises copying). Other kinds are out of subset.
            v = self.ev(node.args[0], st, cx)
            k = unopt(v.k)
            if k.head != "opaque":
                raise OutOfSubset("deepcopy of kind %r (line %s)" % (v.k, node.lineno))
            fname = "deepcopy_" + k[1]
            if fname not in uni.uf:
                uni.uf[fname] = z3.Function(fname, V, V)
            t = uni.uf[fname](v.t)
            for key, con in uni.contracts.items():
                if key.startswith(k[1] + ".") and con.get("observer") and con.get("params") == ["self"]:
                    fn = self.observer_fn(key, 1)
                    st.assume(fn(t) == fn(v.t), glob=True)
            st.assume(t != v.t, glob=True)
            note = ("copy.deepcopy(x) of a %s yields a distinct value that agrees with x on every declared zero-argument "
                    "observer of %s" % (k[1], k[1]))
            if note not in uni.assumptions:
                uni.assumptions.append(note)
            return SV(t, v.k)
        if name == "id":
            # identity of a heap object: its reference (injective; only meaningful for references)
            v = self.ev(node.args[0], st, cx)
            return SInt(ref(v.t))
        if name == "cast":
            v = self.ev(node.args[1], st, cx)
            k = kind_of_annotation(node.args[0], uni)
            return SV(v.t, k if k != ANY else v.k)
        if name == "tuple" and node.args:
            v = self.ev(node.args[0], st, cx)
            k = unopt(v.k)
            if k.head in ("tuple", "vtuple"):
                return v
            if k.head == "list":
                sv_ = self.R(st, v)
                return SV(seq_of(ops.l_len(sv_, ref(v.t)), ops.l_el(sv_, ref(v.t))), K("vtuple", k[1]), v.h)
            raise OutOfSubset("tuple() of kind %r" % (v.k,))
        if name in ("list", "tuple"):
            if not node.args:
                return SV(VRef(ops.new_list(st, z3.IntVal(0), z3.K(IntS, VNone))), K("list", ANY))
            v = self.ev(node.args[0], st, cx)
            k = unopt(v.k)
            if k.head in ("list", "vtuple", "tuple"):
                r = ref(v.t)
                sv_ = self.R(st, v)
                return SV(VRef(ops.new_list(st, ops.l_len(sv_, r), ops.l_el(sv_, r))),
                          K("list", k[1] if k.head != "tuple" else ANY))
            if k.head in ("set",):
                return self.enum_of_set(st, v)
            raise OutOfSubset("list() of kind %r" % (v.k,))
        if name == "sorted" and len(node.args) == 1 and not node.keywords:
            # sorted(<set | dict | dict keys> of str): a duplicate-free enumeration of the members (as for iteration) that
            # is in non-decreasing string order. sorted(<list of str>): a rearrangement (explicit bijection) in order.
            v = self.ev(node.args[0], st, cx)
            k = unopt(v.k)
            i, j = bvar("si"), bvar("sj")
            if k.head in ("set", "dict", "keys"):
                ek = k[1]
                if ek.head != "str":
                    raise OutOfSubset("sorted() of elements of kind %r" % (ek,))
                base = SV(v.t, K("set", k[1]) if k.head == "set" else K("dict", k[1], k[2]))
                res = self.enum_of_set(st, base)          # members, each once, position function both ways
                er = ref(res.t)
                n, new = ops.l_len(st, er), ops.l_el(st, er)
            elif k.head == "list":
                ek = k[1] if len(k) > 1 else ANY
                if ek.head != "str":
                    raise OutOfSubset("sorted() of elements of kind %r" % (ek,))
                sr = self.R(st, v)
                n, old = ops.l_len(sr, ref(v.t)), ops.l_el(sr, ref(v.t))
                new = fresh("sorted", old.sort())
                perm = z3.Function(str(fresh("perm", IntS)), IntS, IntS)
                inr0 = lambda x: z3.And(0 <= x, x < n)      # noqa: E731
                st.assume(z3.ForAll([i], z3.Implies(inr0(i), z3.And(inr0(perm(i)), z3.Select(new, i) == z3.Select(old, perm(i)))),
                                    patterns=[z3.Select(new, i)]), glob=True)
                st.assume(z3.ForAll([i, j], z3.Implies(z3.And(inr0(i), inr0(j), i != j), perm(i) != perm(j)),
                                    patterns=[z3.MultiPattern(perm(i), perm(j))]), glob=True)
                st.assume(z3.ForAll([i], z3.Implies(z3.Not(inr0(i)), z3.Select(new, i) == VNone), patterns=[z3.Select(new, i)]), glob=True)
                res = SV(VRef(ops.new_list(st, n, new)), K("list", ek))
                assume_typed(st, res.t, res.k)
            else:
                raise OutOfSubset("sorted() of kind %r" % (v.k,))
            inr = lambda x: z3.And(0 <= x, x < n)      # noqa: E731
            si_, sj_ = sval(z3.Select(new, i)), sval(z3.Select(new, j))
            st.assume(z3.ForAll([i, j], z3.Implies(z3.And(inr(i), inr(j), i < j), z3.Or(si_ == sj_, si_ < sj_))), glob=True)
            return SV(res.t, K("list", ek))
        if name == "set":
            if not node.args:
                return SV(VRef(ops.new_set(st, ops.EMPTY_MEM)), K("set", ANY))
            v = self.ev(node.args[0], st, cx)
            k = unopt(v.k)
            if k.head in ("list", "vtuple"):
                mem = ops.mem_of_list(self.R(st, v), ref(v.t), st)
                r = ops.new_set(st, mem)
                n = ops.l_len(self.R(st, v), ref(v.t))
                card = set_card(ops.s_mem(st, r))
                st.assume(z3.And(card >= 0, card <= n, z3.Implies(n > 0, card > 0)))
                st.assume((card == n) == ops.l_distinct(self.R(st, v), ref(v.t)))
                return SV(VRef(r), K("set", k[1]))
            if k.head == "set":
                return SV(VRef(ops.new_set(st, ops.s_mem(self.R(st, v), ref(v.t)))), k)
            raise OutOfSubset("set() of kind %r" % (v.k,))
        if name in uni.recfuns:
            return self.recfun_app(name, [self.ev(a, st, cx) for a in node.args], st)
        if name == "unfold":
            # unfold(f, args..., i): assume f(args, 0) == base and f(args, i + 1) == step(i)  (definition instances)
            fname = node.args[0].id if isinstance(node.args[0], ast.Name) else node.args[0].value
            rf = uni.recfuns[fname]
            args = [self.ev(a, st, cx) for a in node.args[1:]]
            ps = rf["params"]
            env0 = dict(zip(ps, args))
            rk = kind_of_annotation(rf.get("returns", "int"), uni)
            zero = list(args[:-1]) + [SInt(z3.IntVal(0))]
            nxt = list(args[:-1]) + [SInt(self.as_int(args[-1]) + 1)]
            scx = Ctx(spec=True, pre=cx.pre, pre_env=cx.pre_env, entry_alloc=cx.entry_alloc)
            base = self.evs(rf["base"], st, scx, dict(env0))
            step = self.evs(rf["step"], st, scx, dict(env0))
            st.assume(self.eq(st, self.recfun_app(fname, zero, st), base), glob=True)
            st.assume(z3.Implies(self.as_int(args[-1]) >= 0,
                                 self.eq(st, self.recfun_app(fname, nxt, st), step)), glob=True)
            return SBool(z3.BoolVal(True))
        if name == "next":
            v = self.ev(node.args[0], st, cx)
            k = unopt(v.k)
            if k.head in ("list", "vtuple"):
                # a fresh generator modelled as the list of what it yields: next() is its first element
                sv_ = self.R(st, v)
                ek = k[1] if len(k) > 1 else ANY
                self.safety(st, ops.l_len(sv_, ref(v.t)) > 0, "next-on-empty", node)
                t = ops.l_get(sv_, ref(v.t), z3.IntVal(0))
                ops.assume_typed_if(st, ops.l_len(sv_, ref(v.t)) > 0, t, ek, v.h)
                return SV(t, ek, v.h)
            if k.head == "iter":
                r = ref(v.t)
                lst = ops.f_get(st, "__it_list", r)
                pos = ival(ops.f_get(st, "__it_pos", r))
                hv = self.iter_heaps.get(z3.simplify(r).get_id())
                t = ops.l_get(hv or st, ref(lst), pos)
                st.heap["f___it_pos"] = z3.Store(st.field("__it_pos"), r, VInt(pos + 1))
                self.safety(st, pos < ops.l_len(hv or st, ref(lst)), "next-on-exhausted", node)
                assume_typed(st, t, k[1], hv)
                return SV(t, k[1], hv)
            raise OutOfSubset("next() of kind %r" % (v.k,))
        if name == "chain":
            parts = [self.ev(a, st, cx) for a in node.args]
            cur = parts[0]
            lst_ref = ops.new_list(st, ops.l_len(self.R(st, cur), ref(cur.t)), ops.l_el(self.R(st, cur), ref(cur.t)))
            for p_ in parts[1:]:
                lst_ref = ops.l_concat(st, lst_ref, ref(p_.t), st, self.R(st, p_))
            it = ops.alloc_ref(st)
            st.heap["f___it_list"] = z3.Store(st.field("__it_list"), it, VRef(lst_ref))
            st.heap["f___it_pos"] = z3.Store(st.field("__it_pos"), it, VInt(z3.IntVal(0)))
            ek = unopt(cur.k)[1] if len(unopt(cur.k)) > 1 else ANY
            return SV(VRef(it), K("iter", ek))
        if name == "pdepth":
            # pdepth(B, k) = #LoopNode - #EndLoopNode among B[0:k]   (uninterpreted; instances of its defining
            # equation are supplied by the ghost statement unfold_pdepth)
            v = self.ev(node.args[0], st, cx)
            k_ = self.as_int(self.ev(node.args[1], st, cx))
            return SInt(pdepth_f(ops.l_el(self.R(st, v), ref(v.t)), k_))
        if name == "unfold_pdepth":
            v = self.ev(node.args[0], st, cx)
            k_ = self.as_int(self.ev(node.args[1], st, cx))
            el = ops.l_el(self.R(st, v), ref(v.t))
            x = z3.Select(el, k_)
            up = z3.And(is_VCon(x), tag(x) == uni.class_id("LoopNode"))
            dn = z3.And(is_VCon(x), tag(x) == uni.class_id("EndLoopNode"))
            st.assume(z3.And(pdepth_f(el, 0) == 0,
                             pdepth_f(el, k_ + 1) == pdepth_f(el, k_) + z3.If(up, 1, z3.If(dn, -1, 0))), glob=True)
            return SBool(z3.BoolVal(True))
        if name == "is_empty":
            v = self.ev(node.args[0], st, cx)
            k = unopt(v.k)
            sv_ = self.R(st, v)
            x = bvarV("e")
            if k.head == "dict":
                return SBool(z3.And(is_VRef(v.t), z3.ForAll([x], z3.Not(z3.Select(ops.d_has(sv_, ref(v.t)), x)))))
            if k.head == "set":
                return SBool(z3.ForAll([x], z3.Not(z3.Select(ops.s_mem(sv_, ref(v.t)), x))))
            if k.head in ("list", "vtuple", "tuple"):
                return SBool(ops.l_len(sv_, ref(v.t)) == 0)
            raise OutOfSubset("is_empty of kind %r" % (v.k,))
        if name == "rev":
            v = self.ev(node.args[0], st, cx)
            sv_ = self.R(st, v)
            n_ = ops.l_len(sv_, ref(v.t))
            el_ = ops.l_el(sv_, ref(v.t))
            j_ = bvar("j")
            return SV(VRef(ops.new_list(st, n_, ops.mk_list_array(st, j_, n_, z3.Select(el_, n_ - 1 - j_)))),
                      K("list", unopt(v.k)[1] if len(unopt(v.k)) > 1 else ANY))
        if name == "seq_key":
            v = self.ev(node.args[0], st, cx)
            r = ref(v.t)
            sv_ = self.R(st, v)
            from .sorts import seq_of
            return SV(seq_of(ops.l_len(sv_, r), ops.l_el(sv_, r)), ANY)
        if name == "Counter":
            v = self.ev(node.args[0], st, cx)
            r = ref(v.t)
            sv_ = self.R(st, v)
            return SV(counter_of(ops.l_len(sv_, r), ops.l_el(sv_, r)), K("opaque", "Counter"))
        if name in ("min", "max") and len(node.args) == 2:
            a, b = [self.as_int(self.ev(x, st, cx)) for x in node.args]
            return SInt(z3.If((a <= b) if name == "min" else (a >= b), a, b))
        # constructors
        if name in getattr(uni, "str_classes", {}):
            # a str subclass whose value is one of its constructor arguments (lark Token(type, value)): modelled as
            # that string (assumed; listed by the sidecar)
            args, kwargs = self.args_of(node, st, cx)
            return SStr(self.as_str(args[uni.str_classes[name]]))
        if name in uni.val_classes or any(name in uni.subclasses(v) for v in uni.val_classes):
            return self.construct_val(name, node, st, cx)
        if name in uni.obj_classes:
            return self.construct_obj(name, node, st, cx)
        key = name
        if key in uni.contracts:
            args, kwargs = self.args_of(node, st, cx)
            return self.call_contract(st, cx, key, uni.contracts[key], None, args, kwargs, node)
        if name + ".__init__" in uni.contracts:
            # constructor of a class that is opaque to the engine: fresh abstract value + its (assumed) contract
            selfv = SV(VRef(ops.alloc_ref(st, uni.class_id(name))), K("opaque", name))
            args, kwargs = self.args_of(node, st, cx)
            self.call_contract(st, cx, name + ".__init__", uni.contracts[name + ".__init__"], selfv, args, kwargs,
                               node, ctor=True)
            return selfv
        raise OutOfSubset("call of %s() has no contract (line %s)" % (name, node.lineno))

    def recfun_app(self, name, args, st):
        rf = self.uni.recfuns[name]
        key = "rec_" + name
        if key not in self.uni.uf:
            self.uni.uf[key] = z3.Function(key, *([V] * (len(args) - 1) + [IntS, V]))
        zs = [a.t for a in args[:-1]] + [self.as_int(args[-1])]
        t = self.uni.uf[key](*zs)
        rk = kind_of_annotation(rf.get("returns", "int"), self.uni)
        assume_typed(st, t, rk)
        return SV(t, rk)

    def isinstance_f(self, st, v, clsnode):
        if isinstance(clsnode, ast.Tuple):
            return z3.Or([self.isinstance_f(st, v, c) for c in clsnode.elts])
        cname = clsnode.id if isinstance(clsnode, ast.Name) else clsnode.attr
        uni = self.uni
        if isinstance(clsnode, ast.Name) and cname in st.env:
            # isinstance against a class held in a variable (a parameter of kind Type): case split over the
            # declared (closed, structurally checked) hierarchy
            cv = self.as_int(st.env[cname])
            cases = []
            for b in sorted(set(uni.bases) | set(uni.obj_classes)):
                try:
                    cases.append(z3.And(cv == uni.class_id(b), self.isinstance_f(st, v, ast.Name(id=b))))
                except OutOfSubset:
                    continue
            if not cases:
                raise OutOfSubset("isinstance against class variable %s: no declared classes" % cname)
            return z3.Or(cases)
        if cname in ("dict", "list", "set", "tuple"):
            # built-in containers carry no run-time tag in the heap model: decided from the static kind where it is
            # known, an uninterpreted predicate of the value otherwise (nothing is assumed about it)
            hk = unopt(v.k).head
            static = {"dict": ("dict",), "list": ("list",), "set": ("set",), "tuple": ("tuple", "vtuple")}[cname]
            if hk in static:
                return z3.BoolVal(True)
            if hk in ("dict", "list", "set", "tuple", "vtuple", "int", "str", "bool", "obj", "val", "none"):
                return z3.BoolVal(False)
            name = "is_builtin_" + cname
            if name not in uni.uf:
                uni.uf[name] = z3.Function(name, V, BoolS)
            return uni.uf[name](v.t)
        if cname == "int":
            return is_VInt(v.t)
        if cname == "str":
            return is_VStr(v.t)
        if cname == "bool":
            return is_VBool(v.t)
        subs = uni.subclasses(cname)
        vs = [c for c in subs if any(x in uni.val_classes for x in uni.mro(c))]
        os_ = [c for c in subs if any(x in uni.obj_classes for x in uni.mro(c))]
        fs = []
        if vs:
            fs.append(z3.And(is_VCon(v.t), z3.Or([tag(v.t) == uni.class_id(c) for c in sorted(vs)])))
        if os_:
            cl = z3.Select(st.H("cls"), ref(v.t))
            fs.append(z3.And(is_VRef(v.t), z3.Or([cl == uni.class_id(c) for c in sorted(os_)])))
        if not fs:
            if cname in uni.opaque_attrs or cname in getattr(uni, "class_names", ()):
                # an opaque collaborator class (lark Tree, ...): true for values statically of that kind, false for the
                # engine's own kinds, an uninterpreted predicate otherwise
                hk = unopt(v.k)
                if hk.head == "opaque" and len(hk) > 1 and hk[1] == cname:
                    return z3.BoolVal(True)
                if hk.head in ("dict", "list", "set", "tuple", "vtuple", "int", "str", "bool", "none"):
                    return z3.BoolVal(False)
                name = "is_opaque_" + cname
                if name not in uni.uf:
                    uni.uf[name] = z3.Function(name, V, BoolS)
                return uni.uf[name](v.t)
            raise OutOfSubset("isinstance against undeclared class %s" % cname)
        return z3.Or(fs)

    def inline_spec(self, name, node, st, cx):
        fn = self.uni.specs[name]
        params = [a.arg for a in fn.args.args]
        args = [self.ev(a, st, cx) for a in node.args]
        if len(args) != len(params):
            raise OutOfSubset("spec function %s arity" % name)
        saved = st.env
        st.env = dict(zip(params, args))
        # spec functions may refer to quantifier-bound names of the caller only through parameters
        try:
            body = extract.strip_doc(fn.body)[0].value
            return self.ev(body, st, Ctx(spec=True, pre=cx.pre, pre_env=cx.pre_env, result=cx.result,
                                         entry_alloc=cx.entry_alloc, pol=cx.pol))
        finally:
            st.env = saved

    def enum_of_set(self, st, v):
        """an arbitrary duplicate-free enumeration of a set (iteration order is not modelled)"""
        k = unopt(v.k)
        sv_ = self.R(st, v)
        mem = ops.s_mem(sv_, ref(v.t)) if k.head == "set" else ops.d_has(sv_, ref(v.t))
        n = fresh("enum_len", IntS)
        el = fresh("enum_el", ElemArr)
        r = ops.new_list(st, n, el)
        x, j = bvarV(), bvar("j")
        pos = z3.Function("enum_pos!%d" % (id(n) % 100000), V, IntS)
        pos = z3.Function(str(fresh("enum_pos", IntS)), V, IntS)
        st.assume(n >= 0, glob=True)
        st.assume(ops.normalized(n, el), glob=True)
        # every listed element is a member; every member is listed at pos(x); pos inverts el (=> duplicate-free)
        st.assume(z3.ForAll([j], z3.Implies(z3.And(0 <= j, j < n),
                                            z3.And(z3.Select(mem, z3.Select(el, j)), pos(z3.Select(el, j)) == j)),
                            patterns=[z3.Select(el, j)]), glob=True)
        st.assume(z3.ForAll([x], z3.Implies(z3.Select(mem, x),
                                            z3.And(0 <= pos(x), pos(x) < n, z3.Select(el, pos(x)) == x)),
                            patterns=[z3.Select(mem, x)]), glob=True)
        return SV(VRef(r), K("list", k[1] if len(k) > 1 else ANY))

    # ------------------------------------------------------------ constructors
    def construct_val(self, name, node, st, cx):
        spec = self.val_spec(name)
        args, kwargs = self.args_of(node, st, cx)
        names = [f for f, _ in spec["fields"]]
        for k_, v_ in kwargs.items():
            args.append(v_)
        if len(args) != len(names):
            raise OutOfSubset("value class %s arity" % name)
        ts = [a.t for a in args] + [VNone] * (3 - len(args))
        return SV(VCon(z3.IntVal(self.uni.class_id(name)), *ts), K("val", name))

    def construct_obj(self, name, node, st, cx):
        key, con = self.uni.find_contract(name, "__init__")
        if con is None:
            raise OutOfSubset("constructor %s() has no contract (line %s)" % (name, node.lineno))
        r = ops.alloc_ref(st, self.uni.class_id(name))
        selfv = SV(VRef(r), K("obj", name))
        args, kwargs = self.args_of(node, st, cx)
        self.call_contract(st, cx, key, con, selfv, args, kwargs, node, ctor=True)
        return selfv

    # ------------------------------------------------------------ attribute calls
    def call_attr(self, f, node, st, cx):
        uni = self.uni
        meth = f.attr
        # module / class qualified: nx.descendants, Header.make_x, Equation.__get_term_ranks
        if isinstance(f.value, ast.Name) and f.value.id not in st.env:
            q = (self.con.get("aliases") or {}).get(f.value.id, f.value.id)
            if q in uni.obj_classes or q in uni.bases or q in uni.modules:
                m = meth
                if m.startswith("__") and not m.endswith("__"):
                    pass
                key, con = uni.find_contract(q, m)
                if con is None:
                    raise OutOfSubset("static call %s.%s has no contract (line %s)" % (q, m, node.lineno))
                args, kwargs = self.args_of(node, st, cx)
                return self.call_contract(st, cx, key, con, None, args, kwargs, node)
            key = q + "." + meth
            if key in uni.contracts:
                args, kwargs = self.args_of(node, st, cx)
                return self.call_contract(st, cx, key, uni.contracts[key], None, args, kwargs, node)
            raise OutOfSubset("call %s has no contract (line %s)" % (key, node.lineno))
        recv = self.ev(f.value, st, cx)
        k = unopt(recv.k)
        h = k.head
        if h == "str":
            return self.str_method(recv, meth, node, st, cx)
        if h in ("list", "vtuple"):
            return self.list_method(recv, k, meth, node, st, cx)
        if h == "set":
            return self.set_method(recv, k, meth, node, st, cx)
        if h in ("dict",):
            return self.dict_method(recv, k, meth, node, st, cx)
        if h in ("obj", "val", "opaque"):
            cname = k[1]
            if h == "val":
                spec = self.val_spec(cname)
                if meth in spec.get("getters", {}):
                    return self.get_attr(st, recv, spec["getters"][meth], node)
            key, con = uni.find_contract(cname, meth)
            if con is None:
                raise OutOfSubset("method %s.%s has no contract (line %s)" % (cname, meth, node.lineno))
            args, kwargs = self.args_of(node, st, cx)
            return self.call_contract(st, cx, key, con, recv, args, kwargs, node)
        raise OutOfSubset("method .%s on kind %r (line %s)" % (meth, recv.k, node.lineno))

    def str_method(self, recv, meth, node, st, cx):
        s = self.as_str(recv)
        if meth == "lower":
            return SStr(str_lower(s))
        if meth == "upper":
            return SStr(str_upper(s))
        if meth == "join":
            v = self.ev(node.args[0], st, cx)
            r = ref(v.t)
            sv_ = self.R(st, v)
            return SStr(str_join(s, ops.l_len(sv_, r), ops.l_el(sv_, r)))
        if meth == "startswith":
            return SBool(z3.PrefixOf(self.as_str(self.ev(node.args[0], st, cx)), s))
        if meth == "endswith":
            return SBool(z3.SuffixOf(self.as_str(self.ev(node.args[0], st, cx)), s))
        if meth in ("replace", "strip", "lstrip", "rstrip") and len(node.args) <= 2 and not node.keywords:
            # uninterpreted: some string determined by the receiver and the arguments (nothing else is assumed)
            args = [self.as_str(self.ev(a, st, cx)) for a in node.args]
            name = "str_%s%d" % (meth, len(args))
            if name not in self.uni.uf:
                self.uni.uf[name] = z3.Function(name, *([StrS] * (1 + len(args)) + [StrS]))
            return SStr(self.uni.uf[name](s, *args))
        raise OutOfSubset("str.%s" % meth)

    def list_method(self, recv, k, meth, node, st, cx):
        r = ref(recv.t)
        ek = k[1] if len(k) > 1 else ANY
        line = node.lineno
        if meth == "copy":
            sr = self.R(st, recv)
            return SV(VRef(ops.new_list(st, ops.l_len(sr, r), ops.l_el(sr, r))), k)
        if meth == "index" and recv.h is not None:
            sr = self.R(st, recv)
            v = self.ev(node.args[0], st, cx)
            eqf = self.elem_eq(sr, ek, self.R(st, v))
            i = fresh("idx", IntS)
            j = bvar("j")
            st.assume(z3.And(0 <= i, i < ops.l_len(sr, r), eqf(ops.l_get(sr, r, i), v.t)))
            st.assume(z3.ForAll([j], z3.Implies(z3.And(0 <= j, j < i), z3.Not(eqf(ops.l_get(sr, r, j), v.t)))))
            return SInt(i)
        if recv.h is not None:
            raise OutOfSubset("list.%s on a value of an old heap" % meth)
        if meth == "append":
            v = self.ev(node.args[0], st, cx)
            ops.l_append(self, st, r, v.t, line)
            return SV(VNone, NONE)
        if meth == "copy":
            return SV(VRef(ops.new_list(st, ops.l_len(st, r), ops.l_el(st, r))), k)
        if meth == "insert":
            i = self.as_int(self.ev(node.args[0], st, cx))
            v = self.ev(node.args[1], st, cx)
            ops.l_insert(self, st, r, i, v.t, line)
            return SV(VNone, NONE)
        if meth == "extend":
            v = self.ev(node.args[0], st, cx)
            j = bvar("j")
            la = ops.l_len(st, r)
            ea, eb = ops.l_el(st, r), ops.l_el(st, ref(v.t))
            n_ = la + ops.l_len(st, ref(v.t))
            ops.write_list(self, st, r, n_,
                           ops.mk_list_array(st, j, n_, z3.If(j < la, z3.Select(ea, j), z3.Select(eb, j - la))), line)
            return SV(VNone, NONE)
        if meth == "index":
            v = self.ev(node.args[0], st, cx)
            eqf = self.elem_eq(st, ek)
            if not cx.spec and not self.con.get("assume_index_found"):
                self.oblige("safety/list.index", st, ops.l_contains(st, r, v.t, eqf), line, kind="safety")
            i = fresh("idx", IntS)
            j = bvar("j")
            st.assume(z3.And(0 <= i, i < ops.l_len(st, r), eqf(ops.l_get(st, r, i), v.t)))
            st.assume(z3.ForAll([j], z3.Implies(z3.And(0 <= j, j < i), z3.Not(eqf(ops.l_get(st, r, j), v.t)))))
            return SInt(i)
        if meth == "pop":
            n = ops.l_len(st, r)
            if node.args:
                i = ops.norm_index(st, r, self.as_int(self.ev(node.args[0], st, cx)))
            else:
                i = n - 1
            self.safety(st, z3.And(0 <= i, i < n), "pop", node)
            t = ops.l_get(st, r, i)
            ops.l_delete(self, st, r, i, line)
            assume_typed(st, t, ek)
            return SV(t, ek)
        if meth == "remove":
            v = self.ev(node.args[0], st, cx)
            eqf = self.elem_eq(st, ek)
            self.oblige("safety/list.remove", st, ops.l_contains(st, r, v.t, eqf), line, kind="safety")
            i = fresh("idx", IntS)
            j = bvar("j")
            st.assume(z3.And(0 <= i, i < ops.l_len(st, r), eqf(ops.l_get(st, r, i), v.t)))
            st.assume(z3.ForAll([j], z3.Implies(z3.And(0 <= j, j < i), z3.Not(eqf(ops.l_get(st, r, j), v.t)))))
            ops.l_delete(self, st, r, i, line)
            return SV(VNone, NONE)
        if meth == "clear":
            ops.write_list(self, st, r, z3.IntVal(0), z3.K(IntS, VNone), line)
            return SV(VNone, NONE)
        if meth == "sort":
            return self.list_sort(recv, ek, node, st, cx)
        raise OutOfSubset("list.%s (line %s)" % (meth, line))

    def list_sort(self, recv, ek, node, st, cx):
        """list.sort() / list.sort(key=lambda x: <int expression>): the new contents are a permutation of the old
        ones (explicit bijection `perm`) in non-decreasing key order. Stability is NOT modelled (a weaker fact)."""
        from .evalx import Binder
        r = ref(recv.t)
        line = node.lineno
        if node.args or any(kw.arg not in ("key",) for kw in node.keywords):
            raise OutOfSubset("list.sort with these arguments (line %s)" % line)
        lam = node.keywords[0].value if node.keywords else None
        if lam is not None and not (isinstance(lam, ast.Lambda) and len(lam.args.args) == 1):
            raise OutOfSubset("list.sort key is not a one-argument lambda (line %s)" % line)
        n = ops.l_len(st, r)
        old = ops.l_el(st, r)
        new = fresh("sorted", old.sort())
        perm = z3.Function(str(fresh("perm", IntS)), IntS, IntS)
        i, j = bvar("si"), bvar("sj")

        def key_of(idx):
            el = SV(z3.Select(new, idx), ek)
            if lam is None:
                return el
            with Binder(st) as b_:
                b_.snap()
                st.env[lam.args.args[0].arg] = el
                return self.ev(lam.body, st, cx)
        ki, kj = key_of(i), key_of(j)
        if ki.k.head == "int" or (lam is not None and ki.k == ANY):
            le = self.as_int(ki) <= self.as_int(kj)
        elif ki.k.head == "str":
            le = z3.Or(self.as_str(ki) == self.as_str(kj), self.as_str(ki) < self.as_str(kj))
        else:
            raise OutOfSubset("list.sort on keys of kind %r (line %s)" % (ki.k, line))
        inr = lambda x: z3.And(0 <= x, x < n)      # noqa: E731
        st.assume(z3.ForAll([i], z3.Implies(inr(i), z3.And(inr(perm(i)), z3.Select(new, i) == z3.Select(old, perm(i)))),
                            patterns=[z3.Select(new, i)]))
        st.assume(z3.ForAll([i, j], z3.Implies(z3.And(inr(i), inr(j), i != j), perm(i) != perm(j)),
                            patterns=[z3.MultiPattern(perm(i), perm(j))]))
        st.assume(z3.ForAll([i], z3.Implies(z3.Not(inr(i)), z3.Select(new, i) == VNone), patterns=[z3.Select(new, i)]))
        st.assume(z3.ForAll([i, j], z3.Implies(z3.And(inr(i), inr(j), i < j), le)))
        ops.write_list(self, st, r, n, new, line)
        return SV(VNone, NONE)

    def set_method(self, recv, k, meth, node, st, cx):
        r = ref(recv.t)
        line = node.lineno
        mem = ops.s_mem(self.R(st, recv), r)
        x = bvarV()
        if recv.h is not None and meth in ("add", "discard", "update"):
            raise OutOfSubset("set.%s on a value of an old heap" % meth)

        def other_mem():
            v = self.ev(node.args[0], st, cx)
            kk = unopt(v.k)
            if kk.head == "set":
                return ops.s_mem(self.R(st, v), ref(v.t))
            if kk.head in ("list", "vtuple"):
                return ops.mem_of_list(self.R(st, v), ref(v.t), st)
            raise OutOfSubset("set.%s with %r" % (meth, v.k))
        if meth == "add":
            v = self.ev(node.args[0], st, cx)
            ops.write_set(self, st, r, z3.Store(mem, v.t, z3.BoolVal(True)), line)
            return SV(VNone, NONE)
        if meth == "discard":
            v = self.ev(node.args[0], st, cx)
            ops.write_set(self, st, r, z3.Store(mem, v.t, z3.BoolVal(False)), line)
            return SV(VNone, NONE)
        if meth == "update":
            om = other_mem()
            ops.write_set(self, st, r, ops.mk_array(st, x, z3.Or(z3.Select(mem, x), z3.Select(om, x)), pats=[z3.Select(mem, x), z3.Select(om, x)]), line)
            return SV(VNone, NONE)
        if meth == "union":
            om = other_mem()
            return SV(VRef(ops.new_set(st, ops.mk_array(st, x, z3.Or(z3.Select(mem, x), z3.Select(om, x)), pats=[z3.Select(mem, x), z3.Select(om, x)]))), k)
        if meth == "intersection":
            om = other_mem()
            return SV(VRef(ops.new_set(st, ops.mk_array(st, x, z3.And(z3.Select(mem, x), z3.Select(om, x)), pats=[z3.Select(mem, x), z3.Select(om, x)]))), k)
        if meth == "difference":
            om = other_mem()
            return SV(VRef(ops.new_set(st, ops.mk_array(st, x, z3.And(z3.Select(mem, x), z3.Not(z3.Select(om, x))), pats=[z3.Select(mem, x), z3.Select(om, x)]))), k)
        if meth == "copy":
            return SV(VRef(ops.new_set(st, mem)), k)
        if meth == "isdisjoint":
            om = other_mem()
            return SBool(z3.ForAll([x], z3.Not(z3.And(z3.Select(mem, x), z3.Select(om, x)))))
        raise OutOfSubset("set.%s (line %s)" % (meth, line))

    def dict_method(self, recv, k, meth, node, st, cx):
        r = ref(recv.t)
        if meth == "keys":
            return SV(recv.t, K("keys", k[1], k[2]))
        if meth in ("values", "items"):
            return SV(recv.t, K(meth, k[1], k[2]))
        if meth == "copy":
            return SV(VRef(ops.new_dict(st, ops.d_has(st, r), ops.d_val(st, r))), k)
        raise OutOfSubset("dict.%s (line %s)" % (meth, node.lineno))

    # ------------------------------------------------------------ contracts
    def callee_params(self, key, con):
        if "params" in con:
            return list(con["params"]), con.get("defaults", {}), con.get("kinds", {}), con.get("returns")
        cname, _, mname = key.rpartition(".")
        rel = con.get("module") or self.uni.modules.get(cname)
        if rel is None:
            raise OutOfSubset("contract %s: no module/params given" % key)
        real = self.uni.class_alias.get(cname, cname)
        fn = extract.module(rel).func((real + "." + mname) if cname else mname)
        params = [a.arg for a in fn.args.args]
        kinds = {a.arg: kind_of_annotation(a.annotation, self.uni) for a in fn.args.args}
        nd = len(fn.args.defaults)
        defaults = {}
        if nd:
            for a, d in zip(fn.args.args[-nd:], fn.args.defaults):
                defaults[a.arg] = d
        ret = kind_of_annotation(fn.returns, self.uni) if fn.returns is not None else ANY
        if extract.is_static(fn):
            pass
        elif params and params[0] == "self":
            pass
        if "returns" in con:
            ret = kind_of_annotation(con["returns"], self.uni)
        return params, defaults, kinds, ret

    def call_contract(self, st, cx, key, con, recv, args, kwargs, node, ctor=False):
        uni = self.uni
        line = getattr(node, "lineno", None)
        params, defaults, kinds, ret = self.callee_params(key, con)
        if isinstance(ret, str):
            ret = kind_of_annotation(ret, uni)
        env = {}
        ps = list(params)
        if ps and ps[0] == "self":
            if recv is None:
                # Class.method(obj, ...) style is not used in teaal
                raise OutOfSubset("unbound method call %s" % key)
            env["self"] = recv
            ps = ps[1:]
        for p, a in zip(ps, args):
            env[p] = a
        for p, a in kwargs.items():
            env[p] = a
        for p in ps:
            if p not in env:
                if p in defaults:
                    d = defaults[p]
                    env[p] = self.ev(d, st, cx) if isinstance(d, ast.AST) else self.evs(repr(d), st, cx)
                else:
                    raise OutOfSubset("missing argument %s in call of %s" % (p, key))
        # adopt declared parameter kinds where the actual is less precise
        for p in ps:
            dk = kinds.get(p, ANY) if not isinstance(kinds.get(p), str) else kind_of_annotation(kinds[p], uni)
            if env[p].k == ANY and dk != ANY:
                env[p] = SV(env[p].t, dk)
        for gname, gk in (con.get("ghost_params") or {}).items():
            src = ((self.con.get("ghost_call_args") or {}).get(key) or {}).get(gname)
            if src is None:
                raise OutOfSubset("call of %s: no ghost argument given for %s" % (key, gname))
            cenv = dict(getattr(self, "pre_env", {}) or {})
            cenv.update(st.env)
            gv = self.evs(src, st, Ctx(spec=True), cenv)
            env[gname] = SV(gv.t, kind_of_annotation(gk, uni) if gv.k == ANY else gv.k, gv.h)
        ordinal = self.next_ordinal("call[" + key + "]")
        label = "call[%s]#%d" % (key, ordinal)
        uni.__dict__.setdefault("used_contracts", {}).setdefault(key, set()).add(self.key)
        pre_state = st.fork()
        pre_state.env = env
        scx = Ctx(spec=True, pre=pre_state, pre_env=env, entry_alloc=st.alloc)
        # observer: heap-independent pure function of its arguments
        if con.get("observer"):
            fn = self.observer_fn(key, len(ps) + (1 if "self" in env else 0))
            zs = ([env["self"].t] if "self" in env else []) + [env[p].t for p in ps]
            t = fn(*zs)
            # objects reached through observers of opaque collaborators are read in the ENTRY heap: the function
            # under verification is assumed not to mutate them (a direct write through such a value is rejected)
            frozen = getattr(self, "entry", None) if con.get("frozen", True) else None
            assume_typed(st, t, ret, frozen)
            res = SV(t, ret, frozen)
            for e in ([] if con.get("ensures_env") == "exit" else con.get("ensures", [])):
                name, src = e if isinstance(e, tuple) else (None, e)
                st.assume(self.formula(src, st, Ctx(spec=True, pre=pre_state, pre_env=env, result=res,
                                                    entry_alloc=st.alloc), env, pol=-1))
            return res
        binders = [b for b in getattr(st, "binder_ctx", []) if b.active]
        if binders and any(b.bvs is None for b in binders):
            raise OutOfSubset("call of %s (not an observer) under a quantifier (line %s)" % (key, line))
        # 1. preconditions
        if not cx.spec:
            for i, src in enumerate(con.get("requires", [])):
                name, src = src if isinstance(src, tuple) else (str(i), src)
                f = self.formula(src, st, Ctx(spec=True), env, pol=1)
                self.oblige("%s/pre[%s]" % (label, name), st, f, line, kind="pre")
                st.assume(self.formula(src, st, Ctx(spec=True), env, pol=-1))
        # 2. exceptional behaviour
        for exc, src in (con.get("raises_if") or {}).items():
            # violation => raises; otherwise it may or may not raise
            c0_ = self.formula(src, st, Ctx(spec=True), env)
            may = fresh("may_raise", BoolS)
            c = z3.Or(c0_, may)
            if not cx.spec:
                es = st.fork()
                es.assume(c)
                self.exits.append(Exit("raise", es, exc=exc, line=line))
            st.assume(z3.Not(c))
        for exc, src in (con.get("raises") or {}).items():
            if src is None:
                c = fresh("may_raise", BoolS)
            else:
                c = self.formula(src, st, Ctx(spec=True), env)
            if not cx.spec:
                es = st.fork()
                es.assume(c)
                self.exits.append(Exit("raise", es, exc=exc, line=line))
            st.assume(z3.Not(c))
        # 3. frame: check against the caller's frames, then havoc
        entry_alloc = st.alloc
        targets = self.eval_targets(con.get("modifies", []), st, env)
        if binders and (targets or con.get("fresh_result")):
            raise OutOfSubset("call of %s, which writes or allocates, inside a comprehension (line %s)" % (key, line))
        if not cx.spec:
            for comp, r in targets:
                if ctor and comp.startswith("f_") and r is not None and "self" in env and z3.eq(simp(r), simp(ref(env["self"].t))):
                    continue
                self.check_targets_in_frame(st, comp, r, line, label)
        elif targets:
            raise OutOfSubset("impure call %s inside a specification" % key)
        if targets or con.get("allocates", not con.get("pure", False)) and not cx.spec:
            a2 = fresh("alloc", IntS)
            st.assume(a2 >= st.alloc)
            st.alloc = a2
        self.havoc_targets(st, targets)
        # 4. result
        if ret == NONE or ret.head == "none":
            res = SV(VNone, NONE)
        elif con.get("fresh_result"):
            # the result is a container allocated by the callee: a new reference (contents given by `ensures`)
            t = VRef(ops.alloc_ref(st))
            assume_typed(st, t, ret)
            res = SV(t, ret)
        elif binders:
            # one result per element: a fresh function of the enclosing bound variables
            bvs = [v for b in binders for v in b.bvs]
            self._skn = getattr(self, "_skn", 0) + 1
            fn = z3.Function("res_%s!sk%d" % (key.replace(".", "_"), self._skn), *([v.sort() for v in bvs] + [V]))
            t = fn(*bvs)
            for b in binders:
                b.skolem.append(t)
            assume_typed(st, t, ret)
            res = SV(t, ret)
        else:
            t = fresh("res_" + key.replace(".", "_"), V)
            assume_typed(st, t, ret)
            res = SV(t, ret)
        if res.k.head != "none":
            # whatever the callee hands back holds only references that exist by now
            st.assume(ops.wf_val(res.t, st.alloc))
        pcx = Ctx(spec=True, pre=pre_state, pre_env=env, result=res, entry_alloc=entry_alloc)
        # postconditions stated over the callee's ghost locals (ensures_env == "exit") cannot be used by a caller;
        # `naming` clauses (the result of a deterministic function named by uninterpreted functions of its
        # arguments) are assumed at call sites only and reported as such
        if con.get("ensures_env") == "exit":
            # only the clauses the contract marks as caller-visible (they mention parameters and old() only)
            vis = set(con.get("caller_ensures") or [])
            ens = [e for e in con.get("ensures", []) if isinstance(e, tuple) and e[0] in vis]
        else:
            ens = list(con.get("ensures", []))
        for e in ens + list(con.get("naming", [])):
            name, src = e if isinstance(e, tuple) else (None, e)
            st.assume(self.formula(src, st, pcx, env, pol=-1))
        if not cx.spec and con.get("ghost_call"):
            pass
        return res

    def observer_fn(self, key, n):
        name = "obs_" + key.replace(".", "_")
        if name not in self.uni.uf:
            self.uni.uf[name] = z3.Function(name, *([V] * n), V)
        return self.uni.uf[name]

    # targets: 'self.f' (field f of self) | 'e[]' (contents of container e) | '*.f' | '*[]'
    def eval_targets(self, targets, st, env):
        out = []
        for tsrc in targets:
            tsrc = tsrc.strip()
            if tsrc == "*[]":
                out += [("list", None), ("set", None), ("dict", None)]
                continue
            if tsrc.startswith("*."):
                out.append(("f_" + tsrc[2:], None))
                continue
            if tsrc.endswith("[*][]"):
                # the contents of every list stored as a value of this dict (the dict itself - keys, which list sits under
                # which key - is not part of the target)
                v = self.evs(tsrc[:-5], st, Ctx(spec=True), env)
                if unopt(v.k).head != "dict":
                    raise OutOfSubset("modifies target %s: not a dict" % tsrc)
                out.append(("listsof", simp(ref(v.t))))
                continue
            if tsrc.endswith("[]"):
                v = self.evs(tsrc[:-2], st, Ctx(spec=True), env)
                k = unopt(v.k)
                comp = {"list": "list", "vtuple": "list", "set": "set", "dict": "dict"}.get(k.head)
                if comp is None:
                    raise OutOfSubset("modifies target %s has kind %r" % (tsrc, v.k))
                out.append((comp, simp(ref(v.t))))
                continue
            node = ast.parse(tsrc, mode="eval").body
            if not isinstance(node, ast.Attribute):
                raise OutOfSubset("modifies target %s" % tsrc)
            saved = st.env
            st.env = env
            try:
                base = self.ev(node.value, st, Ctx(spec=True))
            finally:
                st.env = saved
            out.append(("f_" + node.attr, simp(ref(base.t))))
        return out

    def check_targets_in_frame(self, st, comp, r, line, label):
        for fr in st.frames:
            al = fr.allowed.get(comp, [])
            if al == "*":
                continue
            if r is None:
                self.oblige("frame[%s]/%s/%s" % (fr.label, label, comp), st, z3.BoolVal(False), line, kind="frame")
            elif comp == "listsof":
                # the lists held by dict r: allowed where the frame names the same dict (or every list)
                if fr.allowed.get("list") == "*":
                    continue
                goal = z3.Or([z3.BoolVal(False)] + [r == a for a in al])
                self.oblige("frame[%s]/%s/%s" % (fr.label, label, comp), st, goal, line, kind="frame")
            else:
                alts = [r >= fr.fresh_from] + [r == a for a in al]
                if comp == "list":
                    for d in fr.allowed.get("listsof", []):
                        k_ = bvarV("k")
                        alts.append(z3.Exists([k_], z3.And(z3.Select(z3.Select(st.H("dhas"), d), k_),
                                                         z3.Select(z3.Select(st.H("dval"), d), k_) == VRef(r))))
                goal = z3.Or(alts)
                self.oblige("frame[%s]/%s/%s" % (fr.label, label, comp), st, goal, line, kind="frame")

    def havoc_targets(self, st, targets):
        for comp, r in targets:
            if comp == "listsof":
                # every list that is a value of dict r may change; every other list keeps length and contents. K names, for
                # a changed list, a key it is stored under
                kf = z3.Function(fresh("hv_key", IntS).decl().name(), IntS, V)
                q = bvar("r")
                inD = z3.And(z3.Select(z3.Select(st.H("dhas"), r), kf(q)),
                             z3.Select(z3.Select(st.H("dval"), r), kf(q)) == VRef(q))
                for n in ("llen", "lel"):
                    cur = st.H(n)
                    new = fresh("hv_" + n, cur.sort())
                    st.assume(z3.ForAll([q], z3.Or(z3.Select(new, q) == z3.Select(cur, q), inD),
                                        patterns=[z3.Select(new, q)]), glob=True)
                    f = ops.wf_refs(new, n, st.alloc)
                    if f is not None:
                        st.assume(f, glob=True)
                    if n == "llen":
                        st.assume(z3.ForAll([q], z3.Select(new, q) >= 0, patterns=[z3.Select(new, q)]), glob=True)
                    st.heap[n] = new
                continue
            if comp == "list":
                names = ["llen", "lel"]
            elif comp == "set":
                names = ["smem"]
            elif comp == "dict":
                names = ["dhas", "dval"]
            else:
                names = [comp]
            for n in names:
                cur = st.H(n)
                if r is None:
                    st.heap[n] = fresh("hv_" + n, cur.sort())
                    f = ops.wf_refs(st.heap[n], n, st.alloc)
                else:
                    cell = fresh("hv_" + n, cur.sort().range())
                    st.heap[n] = z3.Store(cur, r, cell)
                    f = ops.wf_cell(cell, n, st.alloc)
                if f is not None:
                    st.assume(f, glob=True)
                if n == "llen":
                    if r is None:
                        pass
                    else:
                        st.assume(z3.Select(st.heap[n], r) >= 0)
