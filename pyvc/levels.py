"""C09 half 2: builder obligations. Every site in teaal/trans/*.py that constructs a HiFiber node with a restricted
hole (operands of EBinOp, receiver of EMethod / EAccess / AAccess, iterable of EComp) must put a child of an accepted
precedence level there (requirements = the printer table computed from the real printer).

Contract view: each function of teaal/trans gets an inferred level contract (levels its Expression parameters may
have, joined over its call sites; levels of its result); constructor sites are checked against the callee contract
(the hole requirement). Flow-sensitive abstract interpretation over the AST (branch refinement on
isinstance(x, EBinOp)), interprocedural fixpoint. A value the analysis cannot bound is `any level`
(sound: the obligation then fails unless every level is accepted)."""
import ast
from . import extract

BINOP_LEVELS = {"CMP", "BOR", "BAND", "SHIFT", "ADD", "MUL"}
ALL_LEVELS = ["LAMBDA", "CMP", "BOR", "BAND", "SHIFT", "ADD", "MUL", "UNARY", "POSTFIX", "INTLIT", "ATOM"]
OP_LEVEL = {"OEqEq": "CMP", "OLt": "CMP", "OIn": "CMP", "ONotIn": "CMP", "OOr": "BOR", "OAnd": "BAND",
            "OLtLt": "SHIFT", "OAdd": "ADD", "OSub": "ADD", "OMul": "MUL", "ODiv": "MUL", "OFDiv": "MUL", "OMod": "MUL"}
ATOM_CLASSES = {"EVar", "EString", "EBool", "EList", "ETuple", "EDict", "EComp", "EParens"}
POSTFIX_CLASSES = {"EMethod", "EFunc", "EAccess", "EField"}
STMT_CLASSES = {"SAssign", "SBlock", "SExpr", "SFor", "SFunc", "SIAssign", "SIf", "SReturn"}
OTHER_CLASSES = {"AJust", "AParam", "AVar", "AAccess", "AField", "PVar", "PTuple"}


def E(levels):
    """expression value: frozenset of (level, operator-or-None)"""
    return ("E", frozenset(levels))


ANY_E = E([(l, None) for l in ALL_LEVELS if l not in BINOP_LEVELS] +
          [(OP_LEVEL[o], o) for o in OP_LEVEL])
BOTTOM = None


def join(a, b):
    if a is None:
        return b
    if b is None:
        return a
    if a[0] != b[0]:
        if a[0] == "E" or b[0] == "E":
            return ANY_E if (a[0] == "E") != (b[0] == "E") and (a[0] in ("L",) or b[0] in ("L",)) else (a if a[0] == "E" else b)
        return a
    if a[0] in ("E", "O", "OC"):
        return (a[0], a[1] | b[1])
    if a[0] == "L":
        return ("L", join(a[1], b[1]))
    if a[0] == "T":
        if len(a[1]) == len(b[1]):
            return ("T", tuple(join(x, y) for x, y in zip(a[1], b[1])))
        return ("L", _fold(list(a[1]) + list(b[1])))
    return a


def _fold(vals):
    r = None
    for v in vals:
        r = join(r, v)
    return r


def elem(v):
    if v is None:
        return None
    if v[0] == "L":
        return v[1]
    if v[0] == "T":
        return _fold(v[1])
    return None


class LevelAnalysis:
    def __init__(self, table, accepts, summaries=None):
        self.table, self.accepts = table, accepts
        self.summaries = summaries or {}       # function name -> callable(args abstract values) -> abstract value
        self.funcs = {}
        self.by_name = {}
        for rel in extract.all_repo_modules("teaal/trans"):
            mod = extract.module(rel)
            for cname in mod.classes:
                for fn in mod.methods(cname):
                    q = "%s:%s.%s" % (rel, cname, fn.name)
                    self.funcs[q] = (rel, cname, fn)
                    self.by_name.setdefault(fn.name, []).append(q)
        self.params = {q: {} for q in self.funcs}
        self.returns = {q: None for q in self.funcs}
        self.sites = {}

    def run(self, max_iter=12):
        for it in range(max_iter):
            self.changed = False
            self.sites = {}
            for q in self.funcs:
                self.analyze(q)
            if not self.changed:
                break
        self.iterations = it + 1
        return self

    # ------------------------------------------------------------------ per function
    def analyze(self, q):
        rel, cname, fn = self.funcs[q]
        env = {}
        called = bool(self.params[q])
        for a in fn.args.args:
            ann = ast.unparse(a.annotation) if a.annotation is not None else ""
            v = self.params[q].get(a.arg)
            if v is None:
                if ann == "Operator":
                    v = ("O", frozenset(OP_LEVEL))
                elif "Type[Operator]" in ann:
                    v = ("OC", frozenset(OP_LEVEL))
                elif "[Expression]" in ann:
                    v = ("L", ANY_E)
            env[a.arg] = v
        self.q = q
        self.ret_key = None
        out = self.block(fn.body, env)

    def block(self, stmts, env):
        """flow-sensitive; returns env after the block (None if it always returns/raises)"""
        for s in stmts:
            if env is None:
                return None
            env = self.stmt(s, env)
        return env

    def merge(self, a, b):
        if a is None:
            return b
        if b is None:
            return a
        out = {}
        for k in set(a) | set(b):
            if k == "$cond":
                fa, fb = a.get(k) or {}, b.get(k) or {}

                def holds(f, env_, facts):
                    if f in facts:
                        return True
                    v = env_.get(f[1])      # the fact `A -> var is not an EBinOp` is trivial if var never is one
                    return v is not None and v[0] == "E" and not any(x[0] in BINOP_LEVELS for x in v[1])
                out[k] = {f: True for f in set(fa) | set(fb) if holds(f, a, fa) and holds(f, b, fb)}
                continue
            out[k] = join(a.get(k), b.get(k))
        return out

    def stmt(self, s, env):
        if isinstance(s, ast.Assign):
            v = self.expr(s.value, env)
            for t in s.targets:
                self.assign(t, v, env)
            return env
        if isinstance(s, ast.AnnAssign):
            if s.value is not None:
                self.assign(s.target, self.expr(s.value, env), env)
            return env
        if isinstance(s, ast.AugAssign):
            v = self.expr(s.value, env)
            if isinstance(s.target, ast.Name):
                env[s.target.id] = join(env.get(s.target.id), v)
            return env
        if isinstance(s, ast.Expr):
            self.expr(s.value, env)
            return env
        if isinstance(s, ast.Return):
            if s.value is not None:
                v = self.expr(s.value, env)
                rk = getattr(self, "ret_key", None) or self.q
                old = self.returns.get(rk)
                new = join(old, v)
                if new != old:
                    self.returns[rk] = new
                    self.changed = True
            return None
        if isinstance(s, (ast.FunctionDef, ast.AsyncFunctionDef)):
            # a local helper (closure): its construction sites are obligations of the enclosing function; calls to
            # it by name get the join of what it returns
            key = self.q + "/" + s.name
            self.returns.setdefault(key, None)
            inner = dict(env)
            for a in s.args.args:
                ann = ast.unparse(a.annotation) if a.annotation is not None else ""
                inner[a.arg] = ("O", frozenset(OP_LEVEL)) if ann == "Operator" else (("L", ANY_E) if "[Expression]" in ann else None)
            saved = getattr(self, "ret_key", None)
            self.ret_key = key
            self.block(s.body, inner)
            self.ret_key = saved
            env[s.name] = ("FN", key)
            return env
        if isinstance(s, ast.Raise):
            return None
        if isinstance(s, ast.If):
            self.expr(s.test, env)
            et, ef = self.refine(s.test, env)
            a = self.block(s.body, et)
            b = self.block(s.orelse, ef) if s.orelse else ef
            return self.merge(a, b)
        if isinstance(s, (ast.For, ast.While)):
            cur = dict(env)
            for _ in range(4):
                start = dict(cur)
                if isinstance(s, ast.For):
                    it = self.expr(s.iter, start)
                    self.bind_target(s.target, s.iter, it, start)
                else:
                    self.expr(s.test, start)
                after = self.block(s.body, start)
                nxt = self.merge(cur, after)
                if nxt == cur:
                    break
                cur = nxt
            return cur
        if isinstance(s, ast.With):
            return self.block(s.body, env)
        return env

    def bind_target(self, tgt, iter_node, itv, env):
        ev = elem(itv)
        if isinstance(iter_node, ast.Call) and isinstance(iter_node.func, ast.Name):
            if iter_node.func.id == "enumerate" and isinstance(tgt, ast.Tuple):
                inner = self.expr(iter_node.args[0], env)
                self.assign(tgt.elts[1], elem(inner), env)
                return
            if iter_node.func.id == "zip" and isinstance(tgt, ast.Tuple):
                for t, a in zip(tgt.elts, iter_node.args):
                    self.assign(t, elem(self.expr(a, env)), env)
                return
            if iter_node.func.id == "reversed":
                ev = elem(self.expr(iter_node.args[0], env))
        self.assign(tgt, ev, env)

    def assign(self, tgt, v, env):
        if isinstance(tgt, ast.Name):
            if env.get("$cond"):
                env["$cond"] = {f: True for f in env["$cond"] if f[1] != tgt.id}
            env[tgt.id] = v
        elif isinstance(tgt, ast.Tuple):
            for i, e in enumerate(tgt.elts):
                if v is not None and v[0] == "T" and i < len(v[1]):
                    self.assign(e, v[1][i], env)
                else:
                    self.assign(e, elem(v), env)
        elif isinstance(tgt, ast.Subscript) and isinstance(tgt.value, ast.Name):
            cur = env.get(tgt.value.id)
            if cur is not None and cur[0] == "T":
                cur = ("L", _fold(cur[1]))
            env[tgt.value.id] = join(cur, ("L", v)) if v is not None else cur

    def refine(self, test, env):
        """(env if test true, env if test false) for isinstance(x, EBinOp) tests"""
        neg = False
        t = test
        if isinstance(t, ast.UnaryOp) and isinstance(t.op, ast.Not):
            neg, t = True, t.operand
        if isinstance(t, ast.Call) and isinstance(t.func, ast.Name) and t.func.id == "isinstance" \
                and isinstance(t.args[0], ast.Name) and isinstance(t.args[1], ast.Name) and t.args[1].id == "EBinOp":
            v = env.get(t.args[0].id)
            if v is not None and v[0] == "E":
                yes, no = dict(env), dict(env)
                yes[t.args[0].id] = E([x for x in v[1] if x[0] in BINOP_LEVELS])
                no[t.args[0].id] = E([x for x in v[1] if x[0] not in BINOP_LEVELS])
                return (no, yes) if neg else (yes, no)
        if isinstance(t, ast.BoolOp) and isinstance(t.op, ast.And) and not neg:
            # `A and isinstance(x, EBinOp)`: x is an EBinOp in the true branch; in the false branch it is not an
            # EBinOp WHENEVER A holds (remembered as a conditional fact keyed by the text of A)
            yes, no = dict(env), dict(env)
            for part in t.values:
                y, _ = self.refine(part, yes)
                yes = y
            if len(t.values) == 2 and isinstance(t.values[1], ast.Call) and isinstance(t.values[1].func, ast.Name) \
                    and t.values[1].func.id == "isinstance" and isinstance(t.values[1].args[0], ast.Name) \
                    and isinstance(t.values[1].args[1], ast.Name) and t.values[1].args[1].id == "EBinOp":
                facts = dict(no.get("$cond") or {})
                facts[(ast.unparse(t.values[0]), t.values[1].args[0].id)] = True
                no["$cond"] = facts
            return yes, no
        return dict(env), dict(env)

    # ------------------------------------------------------------------ expressions
    def expr(self, e, env):
        if e is None or isinstance(e, ast.Constant):
            return None
        if isinstance(e, ast.Name):
            if e.id in OP_LEVEL:
                return ("OC", frozenset([e.id]))
            return env.get(e.id)
        if isinstance(e, ast.IfExp):
            self.expr(e.test, env)
            return join(self.expr(e.body, env), self.expr(e.orelse, env))
        if isinstance(e, (ast.List, ast.Tuple)):
            vals = [self.expr(x, env) for x in e.elts]
            if isinstance(e, ast.Tuple):
                return ("T", tuple(vals))
            return ("L", _fold(vals))
        if isinstance(e, ast.ListComp):
            env2 = dict(env)
            for g in e.generators:
                self.bind_target(g.target, g.iter, self.expr(g.iter, env2), env2)
            return ("L", self.expr(e.elt, env2))
        if isinstance(e, ast.Subscript):
            base = self.expr(e.value, env)
            if isinstance(e.slice, ast.Slice):
                return ("L", elem(base)) if base is not None else None
            if base is not None and base[0] == "T" and isinstance(e.slice, ast.Constant) \
                    and isinstance(e.slice.value, int) and -len(base[1]) <= e.slice.value < len(base[1]):
                return base[1][e.slice.value]
            return elem(base)
        if isinstance(e, ast.BinOp):
            a, b = self.expr(e.left, env), self.expr(e.right, env)
            if isinstance(e.op, ast.Add):
                return join(a, b)
            return None
        if isinstance(e, ast.BoolOp):
            return _fold([self.expr(x, env) for x in e.values])
        if isinstance(e, ast.Call):
            return self.call(e, env)
        if isinstance(e, ast.Attribute):
            self.expr(e.value, env)
            return None
        for ch in ast.iter_child_nodes(e):
            if isinstance(ch, ast.expr):
                self.expr(ch, env)
        return None

    def site(self, node, shape, child, op=None):
        """record the obligation `child level accepted by shape`"""
        key = (self.q, node.lineno, node.col_offset, shape)
        if child is None or child[0] != "E":
            lv = ANY_E[1] if child is None else frozenset()
            unknown = child is None
        else:
            lv, unknown = child[1], False
        bad = []
        for (l, cop) in lv:
            same = cop if (op is not None and cop == op) else None
            if not self.accepts(self.table, shape, l, same):
                bad.append(l if cop is None else "%s(%s)" % (l, cop))
        self.sites[key] = {"func": self.q, "line": node.lineno, "shape": shape, "text": ast.unparse(node)[:80],
                           "levels": sorted({x[0] for x in lv}), "rejected": sorted(set(bad)), "unknown": unknown}

    def call(self, e, env):
        f = e.func
        name = f.id if isinstance(f, ast.Name) else (f.attr if isinstance(f, ast.Attribute) else None)
        args = [self.expr(a, env) for a in e.args]
        kw = {k.arg: self.expr(k.value, env) for k in e.keywords}
        if isinstance(f, ast.Name):
            if name == "EBinOp" and len(args) == 3:
                ops = args[1][1] if args[1] is not None and args[1][0] == "O" else frozenset(OP_LEVEL)
                for o in sorted(ops):
                    self.site(e.args[0], "EBinOp[%s].left" % o, args[0], o)
                    self.site(e.args[2], "EBinOp[%s].right" % o, args[2], o)
                return E([(OP_LEVEL[o], o) for o in ops])
            if name in OP_LEVEL:
                return ("O", frozenset([name]))
            if name == "EInt":
                a0 = e.args[0] if e.args else None
                if isinstance(a0, ast.Constant) and isinstance(a0.value, int) and a0.value >= 0:
                    return E([("INTLIT", None)])
                return E([("INTLIT", None), ("UNARY", None)])
            if name == "EFloat":
                return E([("ATOM", None), ("UNARY", None), ("POSTFIX", None)])
            if name == "ELambda":
                return E([("LAMBDA", None)])
            if name in ("EMethod", "EAccess", "AAccess"):
                self.site(e.args[0], name + ".obj" if name != "AAccess" else "SAssign.assn[AAccess].obj", args[0])
                return E([("POSTFIX", None)]) if name != "AAccess" else None
            if name == "EComp" and len(args) == 3:
                self.site(e.args[2], "EComp.iter", args[2])
                return E([("ATOM", None)])
            if name in ATOM_CLASSES:
                return E([("ATOM", None)])
            if name in POSTFIX_CLASSES:
                return E([("POSTFIX", None)])
            if name in STMT_CLASSES or name in OTHER_CLASSES:
                return None
            if name == "cast" and len(args) == 2:
                return args[1]
            if name == "deepcopy" and args:
                return args[0]
            if name in ("list", "tuple", "reversed", "sorted") and args:
                v = args[0]
                return ("L", elem(v)) if v is not None else None
            if name in ("enumerate", "zip"):
                return None
        if isinstance(f, ast.Name) and env.get(name) is not None and env[name][0] == "FN":
            return self.returns.get(env[name][1])
        # operator class held in a variable: op()
        if isinstance(f, ast.Name) and env.get(name) is not None and env[name][0] == "OC":
            return ("O", env[name][1])
        if isinstance(f, ast.Attribute) and name in ("append", "insert", "extend") and isinstance(f.value, ast.Name):
            v = args[-1] if args else None
            cur = env.get(f.value.id)
            add = ("L", v) if name != "extend" else v
            if v is not None:
                env[f.value.id] = join(cur, add) if cur is not None else add
            return None
        if isinstance(f, ast.Attribute) and name == "copy":
            return self.expr(f.value, env)
        if name in self.summaries:
            return self.summaries[name](self, e, args, kw, env)
        cands = self.by_name.get(name, []) if name else []
        if not cands:
            return None
        res = None
        for c in cands:
            rel, cn, fn = self.funcs[c]
            ps = [a.arg for a in fn.args.args]
            static = any(isinstance(d, ast.Name) and d.id == "staticmethod" for d in fn.decorator_list)
            if ps and ps[0] in ("self", "cls") and not static:
                ps = ps[1:]
            for p_, a in list(zip(ps, args)) + [(k_, v_) for k_, v_ in kw.items() if k_ in ps]:
                if a is None:
                    continue
                old = self.params[c].get(p_)
                new = join(old, a)
                if new != old:
                    self.params[c][p_] = new
                    self.changed = True
            res = join(res, self.returns[c])
        return res
