"""z3 sorts, the universal value datatype V, kinds (static types) and heap layout."""
import ast
import z3

Z = z3

_V = z3.Datatype("V")
_V.declare("VNone")
_V.declare("VInt", ("ival", z3.IntSort()))
_V.declare("VBool", ("bval", z3.BoolSort()))
_V.declare("VStr", ("sval", z3.StringSort()))
_V.declare("VRef", ("ref", z3.IntSort()))
# immutable value objects (graph nodes, tuples): tag + up to three components
_V.declare("VCon", ("tag", z3.IntSort()), ("c0", _V), ("c1", _V), ("c2", _V))
V = _V.create()

VNone, VInt, VBool, VStr, VRef, VCon = V.VNone, V.VInt, V.VBool, V.VStr, V.VRef, V.VCon
ival, bval, sval, ref = V.ival, V.bval, V.sval, V.ref
tag, c0, c1, c2 = V.tag, V.c0, V.c1, V.c2
is_VNone, is_VInt, is_VBool, is_VStr, is_VRef, is_VCon = (
    V.is_VNone, V.is_VInt, V.is_VBool, V.is_VStr, V.is_VRef, V.is_VCon)

IntS = z3.IntSort()
BoolS = z3.BoolSort()
StrS = z3.StringSort()
ElemArr = z3.ArraySort(IntS, V)          # list contents
MemArr = z3.ArraySort(V, BoolS)          # set membership / dict key presence
ValArr = z3.ArraySort(V, V)              # dict values

HEAP_SORTS = {
    "llen": z3.ArraySort(IntS, IntS),
    "lel": z3.ArraySort(IntS, ElemArr),
    "smem": z3.ArraySort(IntS, MemArr),
    "dhas": z3.ArraySort(IntS, MemArr),
    "dval": z3.ArraySort(IntS, ValArr),
    "cls": z3.ArraySort(IntS, IntS),
}
FIELD_SORT = z3.ArraySort(IntS, V)

# uninterpreted helpers for strings / multisets
str_lower = z3.Function("str_lower", StrS, StrS)
str_upper = z3.Function("str_upper", StrS, StrS)
str_join = z3.Function("str_join", StrS, IntS, ElemArr, StrS)
str_of_int = z3.Function("str_of_int", IntS, StrS)
str_of_any = z3.Function("str_of_any", V, StrS)
int_of_str = z3.Function("int_of_str", StrS, IntS)
counter_of = z3.Function("counter_of", IntS, ElemArr, V)   # Counter(list) as abstract value
set_card = z3.Function("set_card", MemArr, IntS)
pdepth_f = z3.Function("pdepth", ElemArr, IntS, IntS)   # bracket depth of a node list prefix (defined by unfolding)
seq_of = z3.Function("seq_of", IntS, ElemArr, V)        # abstract key of a list's contents (injective, see axiom)


seq_len = z3.Function("seq_len", V, IntS)
seq_els = z3.Function("seq_els", V, ElemArr)


def seq_inverse_axioms():
    """seq_len / seq_els invert seq_of (variable-length tuples are the values seq_of(n, elems))"""
    n = z3.Int("sq_n")
    e = z3.Const("sq_e", ElemArr)
    return [z3.ForAll([n, e], z3.And(seq_len(seq_of(n, e)) == n, seq_els(seq_of(n, e)) == e),
                      patterns=[seq_of(n, e)])]


def seq_of_injective():
    n1, n2 = z3.Ints("sq_n1 sq_n2")
    e1, e2 = z3.Consts("sq_e1 sq_e2", ElemArr)
    return z3.ForAll([n1, e1, n2, e2], z3.Implies(seq_of(n1, e1) == seq_of(n2, e2), z3.And(n1 == n2, e1 == e2)),
                     patterns=[z3.MultiPattern(seq_of(n1, e1), seq_of(n2, e2))])


def congruence_helpers():
    """contrapositive of congruence for functions of (len, contents): makes the solver consider
    array (dis)equality of the contents, which triggers extensionality"""
    n1, n2 = z3.Ints("cg_n1 cg_n2")
    e1, e2 = z3.Consts("cg_e1 cg_e2", ElemArr)
    s1, s2 = z3.Consts("cg_s1 cg_s2", StrS)
    out = []
    for f in (seq_of, counter_of):
        out.append(z3.ForAll([n1, e1, n2, e2], z3.Or(f(n1, e1) == f(n2, e2), n1 != n2, e1 != e2),
                             patterns=[z3.MultiPattern(f(n1, e1), f(n2, e2))]))
    out.append(z3.ForAll([s1, n1, e1, n2, e2], z3.Or(str_join(s1, n1, e1) == str_join(s1, n2, e2), n1 != n2, e1 != e2),
                         patterns=[z3.MultiPattern(str_join(s1, n1, e1), str_join(s1, n2, e2))]))
    return out

_fresh = [0]


def fresh(name, sort):
    _fresh[0] += 1
    return z3.Const("%s!%d" % (name, _fresh[0]), sort)


def reset_fresh():
    _fresh[0] = 0


# ---------------------------------------------------------------- kinds
class K(tuple):
    """kind: ('int',) ('str',) ('bool',) ('none',) ('any',) ('list',K) ('set',K) ('dict',K,K)
    ('opt',K) ('tuple',K..) ('obj',cls) ('val',cls) ('opaque',cls) ('func',)"""

    def __new__(cls, *a):
        return tuple.__new__(cls, a)

    @property
    def head(self):
        return self[0]

    def __repr__(self):
        return "K" + tuple.__repr__(self)


INT, STR, BOOL, NONE, ANY = K("int"), K("str"), K("bool"), K("none"), K("any")


def kind_of_annotation(node, universe):
    """universe: object with .obj_classes / .val_classes (names)"""
    if node is None:
        return ANY
    if isinstance(node, str):
        node = ast.parse(node, mode="eval").body
    if isinstance(node, ast.Constant):
        if node.value is None:
            return NONE
        if isinstance(node.value, str):
            return kind_of_annotation(node.value, universe)
        return ANY
    if isinstance(node, ast.Name):
        n = node.id
        if n == "int":
            return INT
        if n == "str":
            return STR
        if n == "bool":
            return BOOL
        if n in ("Any", "object"):
            return ANY
        if n in ("list", "List"):
            return K("list", ANY)
        if n in ("set", "Set"):
            return K("set", ANY)
        if n in ("dict", "Dict"):
            return K("dict", ANY, ANY)
        return universe.class_kind(n)
    if isinstance(node, ast.Attribute):
        return universe.class_kind(node.attr)
    if isinstance(node, ast.Subscript):
        base = node.value.id if isinstance(node.value, ast.Name) else getattr(node.value, "attr", "")
        sl = node.slice
        args = list(sl.elts) if isinstance(sl, ast.Tuple) else [sl]
        if base in ("List", "Sequence", "list", "Iterable"):
            return K("list", kind_of_annotation(args[0], universe))
        if base in ("Set", "set"):
            return K("set", kind_of_annotation(args[0], universe))
        if base in ("Dict", "dict"):
            return K("dict", kind_of_annotation(args[0], universe), kind_of_annotation(args[1], universe))
        if base == "Optional":
            return K("opt", kind_of_annotation(args[0], universe))
        if base in ("Tuple", "tuple"):
            if len(args) == 2 and isinstance(args[1], ast.Constant) and args[1].value is Ellipsis:
                return K("vtuple", kind_of_annotation(args[0], universe))
            return K("tuple", *[kind_of_annotation(a, universe) for a in args])
        return ANY
    return ANY
