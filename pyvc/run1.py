"""ad-hoc: verify all contracts of given sidecar modules, print table"""
import importlib, sys, time
from pyvc.state import Universe, OutOfSubset
from pyvc.execs import Exec
from pyvc import solve, extract

def main(mods, only=None):
    uni = Universe()
    ms = [importlib.import_module(m) for m in mods]
    for m in ms: uni.load_sidecar(m)
    obls = []
    for key, con in uni.contracts.items():
        if only and only not in key: continue
        if con.get("assumed") or ("params" in con and not con.get("ensures")) or con.get("assumed_body"): continue
        try:
            ex = Exec(uni, key, con)
            o = ex.verify()
            obls += o
        except OutOfSubset as e:
            print("OUT-OF-SUBSET", key, e)
    t0=time.time()
    solve.discharge(obls)
    bad = 0
    for ob in obls:
        if ob.kind == "cover-path":
            if ob.status == "discharged": print("   (infeasible return path: %s)" % ob.name)
            continue
        ok = (ob.status == "discharged") if ob.kind != "cover" else (ob.status != "discharged")
        if not ok: bad += 1
        if not ok or '-v' in sys.argv:
            print("%-12s %-8s %6.2fs %s" % (ob.status, ob.backend, ob.seconds, ob.name))
            if not ok and ob.kind != 'cover': print("    ", ob.detail[:1500].replace("\n", "\n     "))
    print(len(obls), "obligations,", bad, "not ok, solve %.1fs" % (time.time()-t0))

if __name__ == "__main__":
    args = [a for a in sys.argv[1:] if not a.startswith('-')]
    only = None
    for a in sys.argv[1:]:
        if a.startswith('--only='): only = a.split('=',1)[1]
    main(args, only)
