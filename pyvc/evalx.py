"""Expression evaluation (code and contract expressions share this translator)."""
import ast
import z3
from .sorts import *   # noqa
from .state import SV, OutOfSubset, Exit, Frame
from . import ops
from .ops import typed, assume_typed, unopt, bvar, bvarV


def SInt(t):
    return SV(VInt(t), INT)


def SBool(f):
    return SV(VBool(f), BOOL)


def SStr(t):
    return SV(VStr(t), STR)


def simp(t):
    return z3.simplify(t)


class Ctx:
    """evaluation context: spec=True inside contract expressions"""

    def __init__(self, spec=False, pre=None, pre_env=None, result=None, entry_alloc=None, pol=0):
        self.spec = spec
        self.pre = pre            # State at function entry (for old())
        self.pre_env = pre_env
        self.result = result
        self.entry_alloc = entry_alloc
        self.pol = pol            # +1: being proved, -1: being assumed, 0: mixed/unknown

    def with_pol(self, pol):
        if pol == self.pol:
            return self
        return Ctx(self.spec, self.pre, self.pre_env, self.result, self.entry_alloc, pol)

    def flip(self):
        return self.with_pol(-self.pol)

    def mixed(self):
        return self.with_pol(0)


CODE = Ctx()


class Scoped:
    """evaluation under a guard (short-circuit / conditional): facts learnt inside survive as
    `guard -> fact`, unconditional ones (definitions of fresh symbols, typing) survive unchanged"""

    def __init__(self, st):
        self.st = st
        self.n0 = len(st.pc)
        self.guards = []

    def push(self, g):
        self.guards.append(g)
        self.st.pc.append(g)

    def replace_last(self, g):
        old = self.guards[-1]
        self.close()
        self.guards = [g]
        self.st.pc.append(g)

    def close(self):
        st = self.st
        tail = st.pc[self.n0:]
        del st.pc[self.n0:]
        gs = [g for g in self.guards]
        active = []          # guards pushed before the fact was learnt
        for f in tail:
            if any(f is g for g in gs):
                active.append(f)
                continue
            if f.get_id() in st.glob:
                st.pc.append(f)
            elif active:
                st.pc.append(z3.Implies(z3.And(active), f))
            else:
                st.pc.append(f)
        self.guards = []
        self.n0 = len(st.pc)


class Binder:
    """evaluation under bound variables: facts, heap and allocations made inside do not escape"""

    def __init__(self, st):
        self.st = st

    def __enter__(self):
        st = self.st
        self.env, self.n0 = st.env, len(st.pc)
        self.seen = set(st.typed_seen)
        st.env = dict(st.env)
        self.heap, self.alloc = None, None
        self.keep = None
        # bound variables a contract call inside this binder may depend on (None: such calls are out of subset)
        self.bvs = None
        self.active = False
        self.skolem = []
        if not hasattr(st, "binder_ctx"):
            st.binder_ctx = []
        st.binder_ctx.append(self)
        st.in_binder = getattr(st, "in_binder", 0) + 1
        return self

    def snap(self):
        # called once the (first) domain is evaluated: from here on evaluation is under the bound variables
        self.active = True
        self.heap, self.alloc = dict(self.st.heap), self.st.alloc

    def __exit__(self, *a):
        st = self.st
        del st.pc[(self.keep if self.keep is not None else self.n0):]
        st.env = self.env
        st.typed_seen = self.seen
        if self.heap is not None:
            st.heap, st.alloc = self.heap, self.alloc
        st.in_binder -= 1
        st.binder_ctx.pop()
        return False


class EvalMixin:
    # ------------------------------------------------------------ coercions
    def as_int(self, sv):
        return simp(ival(sv.t))

    def as_str(self, sv):
        return simp(sval(sv.t))

    def as_ref(self, sv):
        return simp(ref(sv.t))

    @staticmethod
    def R(st, sv):
        """the heap a value must be read in (tuples are values: read through their own pseudo-heap)"""
        if unopt(sv.k).head in ("tuple", "vtuple"):
            return ops.TupHeap(sv.t, sv.h if sv.h is not None else st)
        return sv.h if sv.h is not None else st

    def truth(self, st, sv):
        k = sv.k
        h = k.head
        t = sv.t
        st = self.R(st, sv)
        if h == "bool":
            return simp(bval(t))
        if h == "int":
            return ival(t) != 0
        if h == "str":
            return z3.Length(sval(t)) > 0
        if h == "none":
            return z3.BoolVal(False)
        if h in ("list", "vtuple"):
            return ops.l_len(st, ref(t)) > 0
        if h == "set":
            x = bvarV("e")
            return z3.Exists([x], z3.Select(ops.s_mem(st, ref(t)), x))
        if h == "dict":
            x = bvarV("e")
            return z3.Exists([x], z3.Select(ops.d_has(st, ref(t)), x))
        if h == "tuple":
            return z3.BoolVal(len(k) > 1)
        if h in ("obj", "val", "opaque"):
            return z3.BoolVal(True)
        if h == "opt":
            inner = self.truth(st, SV(t, k[1], sv.h))
            return z3.And(t != VNone, inner)
        raise OutOfSubset("truthiness of kind %r" % (k,))

    def eq(self, st, a, b):
        """python == as a formula"""
        ka, kb = unopt(a.k), unopt(b.k)
        if a.k == BOOL and b.k == BOOL:
            # compare as formulas (a quantifier must not end up inside a VBool(...) term)
            return simp(bval(a.t)) == simp(bval(b.t))
        if ka.head in ("tuple", "vtuple") and kb.head in ("tuple", "vtuple"):
            return a.t == b.t
        if ka.head in ("list", "vtuple") and kb.head in ("list", "vtuple"):
            f = self.list_eq(self.R(st, a), ref(a.t), self.R(st, b), ref(b.t), ka[1] if len(ka) > 1 else ANY)
            if a.k.head == "opt" or b.k.head == "opt":
                return z3.If(z3.Or(a.t == VNone, b.t == VNone), a.t == b.t, f)
            return f
        if ka.head == "set" and kb.head == "set":
            return ops.s_mem(self.R(st, a), ref(a.t)) == ops.s_mem(self.R(st, b), ref(b.t))
        for k in (ka, kb):
            if k.head in ("list", "vtuple", "set", "dict"):
                if (a.k.head == "none") or (b.k.head == "none"):
                    return a.t == b.t
                raise OutOfSubset("== between %r and %r" % (a.k, b.k))
            if k.head == "obj" and not self.uni.obj_classes.get(k[1], {}).get("__identity_eq__"):
                if (a.k.head == "none") or (b.k.head == "none"):
                    return a.t == b.t
                raise OutOfSubset("== on objects of class %s (custom __eq__ not modelled)" % k[1])
        return a.t == b.t

    def list_eq(self, sa, ra, sb, rb, ek):
        if ek.head not in ("list", "vtuple", "any", "opt"):
            # extensional: list contents are normalised to VNone outside [0, len)
            return z3.And(ops.l_len(sa, ra) == ops.l_len(sb, rb), ops.l_el(sa, ra) == ops.l_el(sb, rb))
        i = bvar("i")
        ea, eb = ops.l_get(sa, ra, i), ops.l_get(sb, rb, i)
        if ek.head in ("list", "vtuple"):
            inner = self.list_eq(sa, ref(ea), sb, ref(eb), ek[1])
        else:
            inner = ea == eb
        return z3.And(ops.l_len(sa, ra) == ops.l_len(sb, rb),
                      z3.ForAll([i], z3.Implies(z3.And(0 <= i, i < ops.l_len(sa, ra)), inner)))

    def elem_eq(self, sa, ek, sb=None):
        """equality of an element x (read in heap sa) with a value y (read in heap sb)"""
        sb = sb or sa
        if ek.head in ("list", "vtuple"):
            return lambda x, y: self.list_eq(sa, ref(x), sb, ref(y), ek[1])
        return lambda x, y: x == y

    # ------------------------------------------------------------ main entry
    def ev(self, node, st, cx):
        m = getattr(self, "ev_" + type(node).__name__, None)
        if m is None:
            raise OutOfSubset("expression %s at line %s" % (type(node).__name__, getattr(node, "lineno", "?")))
        return m(node, st, cx)

    def evs(self, src, st, cx, env=None):
        """evaluate a contract expression given as a string"""
        node = ast.parse(src, mode="eval").body
        if env is not None:
            saved = st.env
            st.env = env
            try:
                return self.ev(node, st, cx)
            finally:
                st.env = saved
        return self.ev(node, st, cx)

    def formula(self, src, st, cx, env=None, pol=0):
        cx = cx.with_pol(pol)
        sv = self.evs(src, st, cx, env) if isinstance(src, str) else self.ev(src, st, cx)
        return self.truth(st, sv)

    # ------------------------------------------------------------ leaves
    def ev_Constant(self, node, st, cx):
        v = node.value
        if v is None:
            return SV(VNone, NONE)
        if isinstance(v, bool):
            return SBool(z3.BoolVal(v))
        if isinstance(v, int):
            return SInt(z3.IntVal(v))
        if isinstance(v, str):
            return SStr(z3.StringVal(v))
        raise OutOfSubset("constant %r" % (v,))

    def ev_Name(self, node, st, cx):
        n = node.id
        if n in st.env:
            return st.env[n]
        if n == "result" and cx.spec and cx.result is not None:
            return cx.result
        if n in ("True", "False"):
            return SBool(z3.BoolVal(n == "True"))
        if n in self.uni.obj_classes or n in self.uni.val_classes or n in self.uni.bases \
                or n in getattr(self.uni, "class_names", ()):
            return SV(VInt(z3.IntVal(self.uni.class_id(n))), K("class", n))
        locs = getattr(self, "_fn_locals", None)
        if locs is None and getattr(self, "fn", None) is not None:
            locs = self._fn_locals = {x.id for x in ast.walk(self.fn) if isinstance(x, ast.Name) and isinstance(x.ctx, ast.Store)}
        if locs and n in locs:
            # a local of the function that no statement on THIS path has bound: CPython raises UnboundLocalError (implicit
            # exceptions are not checked); modelled as an arbitrary value of its declared kind
            k_ = getattr(self, "decl_kinds", {}).get(n, ANY)
            t_ = fresh("unbound_" + n, V)
            st.env[n] = SV(t_, k_)
            assume_typed(st, t_, k_)
            return st.env[n]
        raise OutOfSubset("unbound name %s at line %s" % (n, getattr(node, "lineno", "?")))

    def ev_Attribute(self, node, st, cx):
        base = self.ev(node.value, st, cx)
        return self.get_attr(st, base, node.attr, node)

    def mangle(self, attr):
        if attr.startswith("__") and not attr.endswith("__") and self.cname:
            return "_" + self.cname.lstrip("_") + attr
        return attr

    def get_attr(self, st, base, attr, node=None):
        k = unopt(base.k)
        if k.head == "class":
            # a class-level constant (e.g. a module's lark parser object): one fixed opaque value per (class, attribute),
            # declared in the sidecar (CLASS_ATTRS); the process-level lemma (no class attribute is ever written) is
            # checked structurally under C15 / C08
            decl = getattr(self.uni, "class_attrs", {}).get(k[1], {})
            if attr not in decl:
                raise OutOfSubset("class attribute %s.%s not declared in sidecar" % (k[1], attr))
            ak = kind_of_annotation(decl[attr], self.uni)
            t = z3.Const("clsattr_%s_%s" % (k[1], attr), V)
            assume_typed(st, t, ak)
            return SV(t, ak)
        if k.head == "obj":
            fk = self.uni.field_kind(k[1], attr)
            if fk is None:
                raise OutOfSubset("field %s.%s not declared in sidecar" % (k[1], attr))
            t = ops.f_get(self.R(st, base), attr, ref(base.t))
            assume_typed(st, t, fk, base.h)
            return SV(t, fk, base.h)
        if k.head == "val":
            spec = self.val_spec(k[1])
            names = [f for f, _ in spec["fields"]]
            if attr in names:
                i = names.index(attr)
                fk = kind_of_annotation(spec["fields"][i][1], self.uni)
                t = [c0, c1, c2][i](base.t)
                # the component only has this type if the value really is of this class (casts are unchecked)
                ids = sorted(self.uni.class_id(c) for c in self.uni.subclasses(k[1]) if c in self.uni.val_classes)
                isit = z3.And(is_VCon(base.t), z3.Or([tag(base.t) == j for j in ids]))
                ops.assume_typed_if(st, isit, t, fk, base.h)
                return SV(t, fk, base.h)
        if k.head == "opaque" and attr in self.uni.opaque_attrs.get(k[1], {}):
            # observer attribute of an opaque collaborator object (heap-independent, read in the entry heap)
            fk = kind_of_annotation(self.uni.opaque_attrs[k[1]][attr], self.uni)
            name = "attr_%s_%s" % (k[1], attr)
            if name not in self.uni.uf:
                self.uni.uf[name] = z3.Function(name, V, V)
            t = self.uni.uf[name](base.t)
            frozen = base.h if base.h is not None else getattr(self, "entry", None)
            assume_typed(st, t, fk, frozen)
            return SV(t, fk, frozen)
        raise OutOfSubset("attribute .%s on kind %r (line %s)" % (attr, base.k, getattr(node, "lineno", "?")))

    def val_spec(self, cname):
        for c in self.uni.mro(cname):
            if c in self.uni.val_classes:
                return self.uni.val_classes[c]
        raise OutOfSubset("value class %s not declared" % cname)

    # ------------------------------------------------------------ operators
    def ev_BoolOp(self, node, st, cx):
        # operands evaluated under the short-circuit assumption (for obligations they generate)
        vals = []
        sc = Scoped(st)
        is_and = isinstance(node.op, ast.And)
        for v in node.values:
            sv = self.ev(v, st, cx)
            vals.append(sv)
            f = self.truth(st, sv)
            sc.push(f if is_and else z3.Not(f))
        sc.close()
        # python returns an operand; we only support use as a boolean unless all kinds agree
        fs = [self.truth(st, v) for v in vals]
        if all(v.k == BOOL for v in vals):
            return SBool(z3.And(fs) if is_and else z3.Or(fs))
        # general: value semantics
        res = vals[-1]
        for v, f in reversed(list(zip(vals[:-1], fs[:-1]))):
            cond = f if not is_and else z3.Not(f)
            res = SV(z3.If(cond, v.t, res.t), res.k if res.k == v.k else ANY)
        if res.k == ANY:
            return SBool(z3.And(fs) if is_and else z3.Or(fs))
        return res

    def ev_UnaryOp(self, node, st, cx):
        v = self.ev(node.operand, st, cx.flip() if isinstance(node.op, ast.Not) else cx)
        if isinstance(node.op, ast.Not):
            return SBool(z3.Not(self.truth(st, v)))
        if isinstance(node.op, ast.USub):
            return SInt(-self.as_int(v))
        raise OutOfSubset("unary op")

    def ev_IfExp(self, node, st, cx):
        c = self.truth(st, self.ev(node.test, st, cx.mixed()))
        sc = Scoped(st)
        sc.push(c)
        a = self.ev(node.body, st, cx)
        sc.replace_last(z3.Not(c))
        b = self.ev(node.orelse, st, cx)
        sc.close()
        k = a.k if a.k == b.k else (a.k if b.k == NONE else (b.k if a.k == NONE else ANY))
        if (a.k == NONE) != (b.k == NONE) and k.head != "opt":
            k = K("opt", k)
        return SV(z3.If(c, a.t, b.t), k)

    def ev_BinOp(self, node, st, cx):
        a = self.ev(node.left, st, cx)
        b = self.ev(node.right, st, cx)
        op = node.op
        ka, kb = a.k.head, b.k.head
        if isinstance(op, ast.Add):
            if ka == "str" or kb == "str":
                return SStr(z3.Concat(self.as_str(a), self.as_str(b)))
            if ka in ("list", "vtuple") and kb in ("list", "vtuple"):
                r = ops.l_concat(st, ref(a.t), ref(b.t), self.R(st, a), self.R(st, b))
                return SV(VRef(r), a.k)
            if ka == "int" or kb == "int":
                return SInt(self.as_int(a) + self.as_int(b))
            raise OutOfSubset("+ on %r, %r (line %s)" % (a.k, b.k, node.lineno))
        if ka == "set" and kb == "set":
            ma, mb = ops.s_mem(self.R(st, a), ref(a.t)), ops.s_mem(self.R(st, b), ref(b.t))
            x = bvarV()
            if isinstance(op, ast.BitOr):
                m = ops.mk_array(st, x, z3.Or(z3.Select(ma, x), z3.Select(mb, x)), pats=[z3.Select(ma, x), z3.Select(mb, x)])
            elif isinstance(op, ast.BitAnd):
                m = ops.mk_array(st, x, z3.And(z3.Select(ma, x), z3.Select(mb, x)), pats=[z3.Select(ma, x), z3.Select(mb, x)])
            elif isinstance(op, ast.Sub):
                m = ops.mk_array(st, x, z3.And(z3.Select(ma, x), z3.Not(z3.Select(mb, x))), pats=[z3.Select(ma, x), z3.Select(mb, x)])
            else:
                raise OutOfSubset("set op")
            return SV(VRef(ops.new_set(st, m)), a.k)
        x, y = self.as_int(a), self.as_int(b)
        if isinstance(op, ast.Sub):
            return SInt(x - y)
        if isinstance(op, ast.Mult):
            return SInt(x * y)
        if isinstance(op, ast.FloorDiv):
            # python floor division; z3 `/` on Int is euclidean: agrees for y > 0
            return SInt(z3.If(y > 0, x / y, (-x) / (-y)))
        if isinstance(op, ast.Mod):
            return SInt(z3.If(y > 0, x % y, x - y * ((-x) / (-y))))
        raise OutOfSubset("binary operator %s" % type(op).__name__)

    def ev_Compare(self, node, st, cx):
        cx = cx.mixed()
        left = self.ev(node.left, st, cx)
        fs = []
        for op, rn in zip(node.ops, node.comparators):
            right = self.ev(rn, st, cx)
            fs.append(self.compare(st, op, left, right, node))
            left = right
        return SBool(z3.And(fs) if len(fs) > 1 else fs[0])

    def compare(self, st, op, a, b, node):
        if isinstance(op, ast.Eq):
            return self.eq(st, a, b)
        if isinstance(op, ast.NotEq):
            return z3.Not(self.eq(st, a, b))
        if isinstance(op, (ast.Is, ast.IsNot)):
            f = a.t == b.t
            return f if isinstance(op, ast.Is) else z3.Not(f)
        if isinstance(op, (ast.In, ast.NotIn)):
            f = self.contains(st, b, a, node)
            return f if isinstance(op, ast.In) else z3.Not(f)
        if a.k.head == "str" and b.k.head == "str":
            raise OutOfSubset("string ordering")
        x, y = self.as_int(a), self.as_int(b)
        if isinstance(op, ast.Lt):
            return x < y
        if isinstance(op, ast.LtE):
            return x <= y
        if isinstance(op, ast.Gt):
            return x > y
        if isinstance(op, ast.GtE):
            return x >= y
        raise OutOfSubset("comparison")

    def contains(self, st, cont, x, node=None):
        k = unopt(cont.k)
        h = k.head
        sc = self.R(st, cont)
        if h in ("list", "vtuple"):
            return ops.l_contains(sc, ref(cont.t), x.t, self.elem_eq(sc, k[1] if len(k) > 1 else ANY, self.R(st, x)))
        if h == "set":
            return z3.Select(ops.s_mem(sc, ref(cont.t)), x.t)
        if h in ("dict", "keys"):
            return z3.Select(ops.d_has(sc, ref(cont.t)), x.t)
        if h == "str":
            return z3.Contains(self.as_str(cont), self.as_str(x))
        if h == "tuple":
            # a tuple of fixed arity: x in (a, b, ...) is x == a or x == b or ...
            alts = []
            for j, ek in enumerate(k[1:]):
                el = SV(z3.Select(seq_els(cont.t), j), ek, cont.h)
                alts.append(self.eq(st, x, el))
            return z3.Or(alts) if alts else z3.BoolVal(False)
        raise OutOfSubset("`in` on kind %r (line %s)" % (cont.k, getattr(node, "lineno", "?")))

    # ------------------------------------------------------------ subscripts
    def ev_Subscript(self, node, st, cx):
        base = self.ev(node.value, st, cx)
        k = unopt(base.k)
        h = k.head
        sb = self.R(st, base)
        if isinstance(node.slice, ast.Slice):
            if node.slice.step is not None:
                raise OutOfSubset("slice step")
            lo = self.as_int(self.ev(node.slice.lower, st, cx)) if node.slice.lower else None
            hi = self.as_int(self.ev(node.slice.upper, st, cx)) if node.slice.upper else None
            if h in ("tuple", "vtuple"):
                lo_, hi_, n_ = ops.slice_bounds(seq_len(base.t), lo, hi)
                j_ = bvar("j")
                arr_ = ops.mk_list_array(st, j_, n_, z3.Select(seq_els(base.t), lo_ + j_))
                return SV(seq_of(n_, arr_), K("vtuple", k[1] if h == "vtuple" else ANY), base.h)
            if h == "list":
                return SV(VRef(ops.l_slice(st, ref(base.t), lo, hi, sb)), k)
            if h == "str":
                s = self.as_str(base)
                lo_, hi_, n = ops.slice_bounds(z3.Length(s), lo, hi)
                return SStr(z3.SubString(s, lo_, n))
            raise OutOfSubset("slice of kind %r" % (base.k,))
        idx = self.ev(node.slice, st, cx)
        if h in ("list", "vtuple"):
            r = ref(base.t)
            i = self.index_term(st, sb, r, node.slice, idx, cx)
            self.safety(st, z3.And(0 <= i, i < ops.l_len(sb, r)), "index", node)
            ek = k[1] if len(k) > 1 else ANY
            t = ops.l_get(sb, r, i)
            ops.assume_typed_if(st, z3.And(0 <= i, i < ops.l_len(sb, r)), t, ek, base.h)
            return SV(t, ek, base.h)
        if h == "dict":
            r = ref(base.t)
            self.safety(st, z3.Select(ops.d_has(sb, r), idx.t), "key", node)
            t = z3.Select(ops.d_val(sb, r), idx.t)
            ops.assume_typed_if(st, z3.Select(ops.d_has(sb, r), idx.t), t, k[2], base.h)
            return SV(t, k[2], base.h)
        if h == "str":
            s = self.as_str(base)
            i = self.as_int(idx)
            i = z3.If(i < 0, z3.Length(s) + i, i)
            return SStr(z3.SubString(s, i, 1))
        if h == "tuple":
            i = simp(self.as_int(idx))
            if not z3.is_int_value(i):
                raise OutOfSubset("tuple index not constant")
            j = i.as_long()
            if j < 0:
                j += len(k) - 1
            ek = k[1 + j]
            t = z3.Select(seq_els(base.t), j)
            assume_typed(st, t, ek, base.h)
            return SV(t, ek, base.h)
        raise OutOfSubset("subscript on kind %r (line %s)" % (base.k, node.lineno))

    def index_term(self, st, sb, r, slice_node, idx, cx):
        """python index normalisation. A syntactically negative index (-1, -k) counts from the end; any other
        index expression is used as is, with an obligation (code) that it is non-negative - a silent
        wrap-around would otherwise be mis-modelled."""
        i = self.as_int(idx)
        neg = isinstance(slice_node, ast.UnaryOp) and isinstance(slice_node.op, ast.USub)
        iv = z3.simplify(i)
        if z3.is_int_value(iv):
            return ops.l_len(sb, r) + iv if iv.as_long() < 0 else iv
        if neg:
            return ops.l_len(sb, r) + i
        if not cx.spec and not getattr(st, "in_binder", 0):
            self.oblige("safety/nonneg-index", st, i >= 0, getattr(slice_node, "lineno", None), kind="safety")
        return i

    def safety(self, st, f, what, node):
        if self.check_safety:
            self.oblige("safety/%s" % what, st, f, getattr(node, "lineno", None), kind="safety")
        else:
            st.assume(f)

    # ------------------------------------------------------------ displays
    def ev_List(self, node, st, cx):
        elts = [self.ev(e, st, cx) for e in node.elts]
        arr = z3.K(IntS, VNone)
        for i, e in enumerate(elts):
            arr = z3.Store(arr, i, e.t)
        ek = elts[0].k if elts and all(e.k == elts[0].k for e in elts) else ANY
        return SV(VRef(ops.new_list(st, z3.IntVal(len(elts)), arr)), K("list", ek))

    def ev_Tuple(self, node, st, cx):
        elts = [self.ev(e, st, cx) for e in node.elts]
        arr = z3.K(IntS, VNone)
        for i, e in enumerate(elts):
            arr = z3.Store(arr, i, e.t)
        return SV(seq_of(z3.IntVal(len(elts)), arr), K("tuple", *[e.k for e in elts]))

    def ev_Set(self, node, st, cx):
        elts = [self.ev(e, st, cx) for e in node.elts]
        m = ops.EMPTY_MEM
        for e in elts:
            m = z3.Store(m, e.t, z3.BoolVal(True))
        ek = elts[0].k if elts else ANY
        return SV(VRef(ops.new_set(st, m)), K("set", ek))

    def ev_Dict(self, node, st, cx):
        has, val = ops.EMPTY_MEM, z3.K(V, VNone)
        kk = vk = ANY
        for kn, vn in zip(node.keys, node.values):
            if kn is None:
                raise OutOfSubset("dict unpacking")
            ks, vs = self.ev(kn, st, cx), self.ev(vn, st, cx)
            has = z3.Store(has, ks.t, z3.BoolVal(True))
            val = z3.Store(val, ks.t, vs.t)
            kk, vk = ks.k, vs.k
        return SV(VRef(ops.new_dict(st, has, val)), K("dict", kk, vk))

    # ------------------------------------------------------------ comprehensions / quantifiers
    def gen_domain(self, gen, st, cx):
        """returns (boundvar, guard formula, bindings{name: SV}) for one `for target in iter` generator"""
        it = gen.iter
        i = bvar("q")
        self.last_base = None
        if isinstance(it, ast.Call) and isinstance(it.func, ast.Name) and it.func.id == "range":
            args = [self.as_int(self.ev(a, st, cx)) for a in it.args]
            lo, hi = (z3.IntVal(0), args[0]) if len(args) == 1 else (args[0], args[1])
            if not isinstance(gen.target, ast.Name):
                raise OutOfSubset("range target")
            return i, z3.And(lo <= i, i < hi), {gen.target.id: SInt(i)}
        if isinstance(it, ast.Call) and isinstance(it.func, ast.Name) and it.func.id == "enumerate":
            base = self.ev(it.args[0], st, cx)
            self.last_base = base
            sb = self.R(st, base)
            r = ref(base.t)
            ek = unopt(base.k)[1]
            a, b = gen.target.elts
            t = ops.l_get(sb, r, i)
            return i, z3.And(0 <= i, i < ops.l_len(sb, r)), {a.id: SInt(i), b.id: SV(t, ek, base.h)}
        base = self.ev(it, st, cx)
        self.last_base = base
        sb = self.R(st, base)
        k = unopt(base.k)
        if k.head in ("list", "vtuple"):
            r = ref(base.t)
            ek = k[1] if len(k) > 1 else ANY
            t = ops.l_get(sb, r, i)
            if not isinstance(gen.target, ast.Name):
                raise OutOfSubset("comprehension target")
            return i, z3.And(0 <= i, i < ops.l_len(sb, r)), {gen.target.id: SV(t, ek, base.h)}
        if k.head in ("set", "dict", "keys"):
            x = bvarV("q")
            mem = ops.s_mem(sb, ref(base.t)) if k.head == "set" else ops.d_has(sb, ref(base.t))
            return x, z3.Select(mem, x), {gen.target.id: SV(x, k[1] if len(k) > 1 else ANY, base.h)}
        if k.head in ("values", "items"):
            x = bvarV("q")
            val = z3.Select(ops.d_val(sb, ref(base.t)), x)
            g = z3.Select(ops.d_has(sb, ref(base.t)), x)
            if k.head == "values":
                return x, g, {gen.target.id: SV(val, k[2], base.h)}
            a, b = gen.target.elts
            return x, g, {a.id: SV(x, k[1], base.h), b.id: SV(val, k[2], base.h)}
        raise OutOfSubset("generator over kind %r" % (base.k,))

    def quant(self, node, st, cx, universal):
        """all(...)/any(...) over a generator expression -> ForAll / Exists"""
        ge = node.args[0]
        if not isinstance(ge, (ast.GeneratorExp, ast.ListComp)):
            # all(list_of_bools)
            base = self.ev(ge, st, cx)
            sb = self.R(st, base)
            i = bvar("q")
            r = ref(base.t)
            body = bval(ops.l_get(sb, r, i))
            g = z3.And(0 <= i, i < ops.l_len(sb, r))
            return SBool(z3.ForAll([i], z3.Implies(g, body)) if universal else z3.Exists([i], z3.And(g, body)))
        with Binder(st) as b:
            n0 = b.n0
            bvs, guards = [], []
            for gi, gen in enumerate(ge.generators):
                bv, g, binds = self.gen_domain(gen, st, cx)
                if gi == 0:
                    b.snap()
                st.env.update(binds)
                bvs.append(bv)
                guards.append(g)
                st.pc.append(g)
                for sv in binds.values():
                    for tf in typed(self.R(st, sv), sv.t, sv.k):
                        st.assume(tf, glob=True)
                for c in gen.ifs:
                    f = self.truth(st, self.ev(c, st, cx))
                    guards.append(f)
                    st.pc.append(f)
            body = self.truth(st, self.ev(ge.elt, st, cx))
            # typing facts learnt about the bound elements: usable when proving a universal / assuming an
            # existential; left out otherwise so the same formula is not weaker as a hypothesis than as a goal
            extra = [f for f in st.pc[n0:] if not any(f is g for g in guards)]
            use_t = (universal and cx.pol > 0) or ((not universal) and cx.pol < 0)
            # (definedness assumptions of partial operations inside the body - key present, index in range -
            #  are not turned into guards: a contract is expected to be well-defined on its domain)
            tfacts = [f for f in extra if f.get_id() in st.glob]
            allg = guards + (tfacts if use_t else [])
            if universal and cx.pol < 0 and tfacts:
                # an assumed universal: the typing assumptions about its elements hold for every element too
                body = z3.And([body] + tfacts)
        g = z3.And(allg) if allg else z3.BoolVal(True)
        if universal:
            return SBool(z3.ForAll(bvs, z3.Implies(g, body)))
        return SBool(z3.Exists(bvs, z3.And(g, body)))

    def ev_ListComp(self, node, st, cx):
        if len(node.generators) != 1 or node.generators[0].ifs:
            return self.filtered_comp(node, st, cx)
        gen = node.generators[0]
        with Binder(st) as b:
            st.in_binder -= 1            # the iterable itself is evaluated outside the binder
            try:
                bv, g, binds = self.gen_domain(gen, st, cx)
            finally:
                st.in_binder += 1
            base = self.last_base
            b.keep = len(st.pc)
            b.snap()
            if not z3.is_int(bv):
                raise OutOfSubset("list comprehension over a set")
            st.env.update(binds)
            st.pc.append(g)
            b.bvs = [bv]
            elt = self.ev(node.elt, st, cx)
            # results of contract calls made per element are functions of the bound variable; what their
            # contracts say holds for every element of the domain
            lifted = None
            if b.skolem:
                facts = list(st.pc[b.keep + 1:])
                if facts:
                    pats_ = [t_ for t_ in b.skolem if ops.pat_ok(t_)]
                    lifted = (z3.ForAll([bv], z3.Implies(g, z3.And(facts)), patterns=pats_) if pats_
                              else z3.ForAll([bv], z3.Implies(g, z3.And(facts))))
        if lifted is not None:
            st.assume(lifted)
        it = gen.iter
        if isinstance(it, ast.Call) and isinstance(it.func, ast.Name) and it.func.id == "range":
            args = [self.as_int(self.ev(a, st, cx)) for a in it.args]
            lo, hi = (z3.IntVal(0), args[0]) if len(args) == 1 else (args[0], args[1])
            n = z3.If(hi - lo > 0, hi - lo, 0)
            j = bvar("j")
            arr = ops.mk_list_array(st, j, n, z3.substitute(elt.t, (bv, j + lo)))
            return SV(VRef(ops.new_list(st, n, arr)), K("list", elt.k))
        n = ops.l_len(self.R(st, base), ref(base.t))
        return SV(VRef(ops.new_list(st, n, ops.mk_list_array(st, bv, n, elt.t))), K("list", elt.k))

    def filtered_comp(self, node, st, cx):
        raise OutOfSubset("filtered / nested list comprehension (line %s)" % node.lineno)

    def ev_SetComp(self, node, st, cx):
        with Binder(st) as b:
            bvs, guards = [], []
            for gi, gen in enumerate(node.generators):
                bv, g, binds = self.gen_domain(gen, st, cx)
                if gi == 0:
                    b.snap()
                st.env.update(binds)
                bvs.append(bv)
                guards.append(g)
                st.pc.append(g)
                for c in gen.ifs:
                    f = self.truth(st, self.ev(c, st, cx))
                    guards.append(f)
                    st.pc.append(f)
            elt = self.ev(node.elt, st, cx)
        x = bvarV("m")
        mem = ops.mk_array(st, x, z3.Exists(bvs, z3.And(guards + [elt.t == x])))
        return SV(VRef(ops.new_set(st, mem)), K("set", elt.k))

    def ev_GeneratorExp(self, node, st, cx):
        raise OutOfSubset("bare generator expression (line %s)" % node.lineno)
