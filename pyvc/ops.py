"""Primitive symbolic operations on the heap model (lists, sets, dicts, fields)."""
import z3
from .sorts import *   # noqa
from .state import SV, OutOfSubset, Obligation, Frame


def bvar(name="i"):
    """a fresh constant to be used as a bound variable"""
    return fresh("b_" + name, IntS)


def bvarV(name="x"):
    return fresh("b_" + name, V)


def typed(st, t, k):
    """typing facts assumed for a value of declared kind k (declared types are trusted)"""
    h = k.head
    if h == "int":
        return [is_VInt(t)]
    if h == "str":
        return [is_VStr(t)]
    if h == "bool":
        return [is_VBool(t)]
    if h == "none":
        return [t == VNone]
    if h == "vtuple":
        # immutable variable-length tuple: the value seq_of(len, elems)
        return [t == seq_of(seq_len(t), seq_els(t)), seq_len(t) >= 0, normalized(seq_len(t), seq_els(t))]
    if h in ("list", "set", "dict") and "g" in k[1:]:
        # ghost containers live at negative references: they can never alias a real object
        if getattr(st, "galloc", None) is None and hasattr(st, "pc"):
            st.galloc = fresh("galloc", IntS)
            st.assume(st.galloc >= 0, glob=True)
        fs = [is_VRef(t), ref(t) < 0]
        if getattr(st, "galloc", None) is not None:
            fs.append(ref(t) >= -st.galloc)        # already allocated: later ghost allocations are distinct
        if h == "list":
            fs += [z3.Select(st.H("llen"), ref(t)) >= 0,
                   normalized(z3.Select(st.H("llen"), ref(t)), z3.Select(st.H("lel"), ref(t)))]
        return fs
    if h == "list":
        return [is_VRef(t), ref(t) >= 0, ref(t) < st.alloc, z3.Select(st.H("llen"), ref(t)) >= 0,
                normalized(z3.Select(st.H("llen"), ref(t)), z3.Select(st.H("lel"), ref(t)))]
    if h == "iter":
        return [is_VRef(t), ref(t) >= 0, ref(t) < st.alloc]
    if h in ("set", "dict"):
        return [is_VRef(t), ref(t) >= 0, ref(t) < st.alloc]
    if h == "obj":
        ids = sorted(st.uni.class_id(c) for c in st.uni.subclasses(k[1]))
        cl = z3.Select(st.H("cls"), ref(t))
        return [is_VRef(t), ref(t) >= 0, ref(t) < st.alloc, z3.Or([cl == i for i in ids])]
    if h == "val":
        ids = sorted(st.uni.class_id(c) for c in st.uni.subclasses(k[1]) if c in st.uni.val_classes)
        return [is_VCon(t), z3.Or([tag(t) == i for i in ids])]
    if h == "tuple":
        return [t == seq_of(seq_len(t), seq_els(t)), seq_len(t) == len(k[1:]), normalized(seq_len(t), seq_els(t))]
    if h == "opaque":
        return [t != VNone]
    if h == "opt":
        inner = typed(st, t, k[1])
        if not inner:
            return []
        return [z3.Or(t == VNone, z3.And(inner))]
    return []


def assume_typed_if(st, cond, t, k, heap=None):
    """typing of a value that only exists under `cond` (list element in range, dict key present)"""
    fs = typed(heap or st, t, k)
    if fs:
        st.assume(z3.Implies(cond, z3.And(fs)), glob=True)


def assume_typed(st, t, k, heap=None):
    """typing facts are heap invariants: they hold unconditionally (glob)"""
    key = (t.get_id(), repr(k), (heap or st).H("llen").get_id() if k.head in ("list", "vtuple", "opt") else 0,
           (heap or st).alloc.get_id() if (heap or st).alloc is not None else 0)
    if key in st.typed_seen:
        return
    st.typed_seen.add(key)
    # keep the keyed ASTs alive (z3 recycles ids of freed ASTs; a recycled id would suppress a typing fact)
    st.glob[("typed",) + key] = (t, (heap or st).H("llen"), (heap or st).alloc)
    for f in typed(heap or st, t, k):
        st.assume(f, glob=True)


def unopt(k):
    return k[1] if k.head == "opt" else k


# ------------------------------------------------------------------ frames
def check_frame(run, st, comps, r, line):
    """every write to heap components `comps` at ref r must be allowed by all active frames"""
    for fr in st.frames:
        for comp in comps:
            al = fr.allowed.get(comp, [])
            if al == "*":
                continue
            goal = z3.Or([r >= fr.fresh_from] + [r == a for a in al])
            run.oblige("frame[%s]/%s" % (fr.label, comp), st, goal, line, kind="frame")


WF_DEPTH = 2


def wf_val(v, alloc, depth=None):
    """every reference held by v - directly, or inside a constructor term up to WF_DEPTH levels - is allocated"""
    depth = WF_DEPTH if depth is None else depth
    f = z3.Implies(is_VRef(v), ref(v) < alloc)
    if depth == 0:
        return f
    return z3.And(f, z3.Implies(is_VCon(v), z3.And([wf_val(c(v), alloc, depth - 1) for c in (c0, c1, c2)])))


def wf_refs(arr, comp, alloc):
    """heap well-formedness: every reference stored in `arr` was allocated before `alloc`"""
    r, i = bvar("r"), bvar("i")
    if comp == "lel":
        v = z3.Select(z3.Select(arr, r), i)
        return z3.ForAll([r, i], wf_val(v, alloc), patterns=[v])
    if comp == "dval":
        k = bvarV("k")
        v = z3.Select(z3.Select(arr, r), k)
        return z3.ForAll([r, k], wf_val(v, alloc), patterns=[v])
    if comp.startswith("f_"):
        v = z3.Select(arr, r)
        return z3.ForAll([r], wf_val(v, alloc), patterns=[v])
    return None


def wf_cell(val, comp, alloc):
    """same for one havocked cell"""
    if comp == "lel":
        i = bvar("i")
        v = z3.Select(val, i)
        return z3.ForAll([i], wf_val(v, alloc), patterns=[v])
    if comp == "dval":
        k = bvarV("k")
        v = z3.Select(val, k)
        return z3.ForAll([k], wf_val(v, alloc), patterns=[v])
    if comp.startswith("f_"):
        return wf_val(val, alloc)
    return None


ARRAY_MODE = [__import__("os").environ.get("PYVC_ARRAY_MODE", "axiom")]


def pat_ok(t):
    """z3 rejects patterns that contain ite / boolean connectives (it only prints a warning)"""
    if z3.is_app(t) and t.decl().kind() in (z3.Z3_OP_ITE, z3.Z3_OP_AND, z3.Z3_OP_OR, z3.Z3_OP_NOT, z3.Z3_OP_IMPLIES,
                                             z3.Z3_OP_EQ, z3.Z3_OP_DISTINCT):
        return False
    return all(pat_ok(c) for c in t.children())


def mk_array(st, j, body, closed=True, pats=()):
    """array defined pointwise: as a lambda term, or (closed terms only) a fresh constant + axiom"""
    if not closed or getattr(st, "in_binder", 0):
        return z3.Lambda([j], body)
    a = fresh("arr", z3.ArraySort(j.sort(), body.sort()))
    if ARRAY_MODE[0] == "lambda":
        st.assume(a == z3.Lambda([j], body), glob=True)
    else:
        ps = [z3.Select(a, j)]

        def _pat_ok(t):
            # z3 rejects patterns that contain ite / boolean connectives (it only prints a warning)
            if z3.is_app(t) and t.decl().kind() in (z3.Z3_OP_ITE, z3.Z3_OP_AND, z3.Z3_OP_OR, z3.Z3_OP_NOT, z3.Z3_OP_IMPLIES):
                return False
            return all(_pat_ok(c) for c in t.children())
        for p_ in [q for q in pats if _pat_ok(q)]:
            try:
                z3.ForAll([j], z3.Select(a, j) == body, patterns=[p_])
                ps.append(p_)
            except z3.Z3Exception:
                pass
        st.assume(z3.ForAll([j], z3.Select(a, j) == body, patterns=ps), glob=True)
    return a


def normalized(n, el):
    """modelling invariant of list contents: VNone outside [0, len) - makes list equality extensional"""
    j = bvar("j")
    body = z3.Implies(z3.Or(j < 0, j >= n), z3.Select(el, j) == VNone)
    try:
        return z3.ForAll([j], body, patterns=[z3.Select(el, j)]) if pat_ok(el) else z3.ForAll([j], body)
    except z3.Z3Exception:
        return z3.ForAll([j], body)


def mk_list_array(st, j, n, body, pats=()):
    return mk_array(st, j, z3.If(z3.And(0 <= j, j < n), body, VNone), pats=pats)


def named(st, t, name="v"):
    """give a compound term a name (keeps later terms small); no-op under binders"""
    if getattr(st, "in_binder", 0) or z3.is_const(t) or z3.is_int_value(t):
        return t
    c = fresh(name, t.sort())
    st.assume(c == t, glob=True)
    return c


# ------------------------------------------------------------------ lists
def l_len(st, r):
    return z3.Select(st.H("llen"), r)


def l_el(st, r):
    return z3.Select(st.H("lel"), r)


def l_get(st, r, i):
    return z3.Select(l_el(st, r), i)


class TupHeap:
    """read-only pseudo-heap through which a tuple value seq_of(n, elems) is read with the list interface:
    every reference reads the tuple's own length / contents"""

    def __init__(self, t, st):
        self.t = t
        self.uni = st.uni
        self.alloc = st.alloc
        self.typed_seen = set()

    def H(self, comp):
        if comp == "llen":
            return z3.K(IntS, seq_len(self.t))
        if comp == "lel":
            return z3.K(IntS, seq_els(self.t))
        raise KeyError(comp)


def seq_len_of(st, sv_t, kind_head):
    if kind_head == "vtuple":
        return seq_len(sv_t)
    return l_len(st, ref(sv_t))


def seq_el_of(st, sv_t, kind_head):
    if kind_head == "vtuple":
        return seq_els(sv_t)
    return l_el(st, ref(sv_t))


def alloc_ref(st, clsid=0):
    if getattr(st, "ghost_mode", 0):
        # ghost allocation: a separate, negative address space
        if getattr(st, "galloc", None) is None:
            st.galloc = fresh("galloc", IntS)
            st.assume(st.galloc >= 0, glob=True)
        st.galloc = z3.simplify(st.galloc + 1)
        return z3.simplify(-st.galloc)
    r = st.alloc
    st.alloc = z3.simplify(st.alloc + 1)
    if clsid:
        st.heap["cls"] = z3.Store(st.H("cls"), r, z3.IntVal(clsid))
    return r


def new_list(st, length, elems):
    r = alloc_ref(st)
    length = named(st, z3.simplify(length), "len")
    st.heap["llen"] = named(st, z3.Store(st.H("llen"), r, length), "h_llen")
    st.heap["lel"] = named(st, z3.Store(st.H("lel"), r, elems), "h_lel")
    return r


def write_list(run, st, r, length, elems, line):
    check_frame(run, st, ["list"], r, line)
    length = named(st, z3.simplify(length), "len")
    st.heap["llen"] = named(st, z3.Store(st.H("llen"), r, length), "h_llen")
    st.heap["lel"] = named(st, z3.Store(st.H("lel"), r, elems), "h_lel")


def norm_index(st, r, i):
    """python index normalisation for a possibly negative index"""
    i = z3.simplify(i)
    if z3.is_int_value(i):
        if i.as_long() < 0:
            return l_len(st, r) + i
        return i
    return z3.If(i < 0, l_len(st, r) + i, i)


def clamp(x, lo, hi):
    return z3.If(x < lo, lo, z3.If(x > hi, hi, x))


def slice_bounds(length, lo, hi):
    """python slice clamping; lo/hi are Int terms or None"""
    if lo is None:
        lo_ = z3.IntVal(0)
    else:
        lo_ = clamp(z3.If(lo < 0, length + lo, lo), z3.IntVal(0), length)
    if hi is None:
        hi_ = length
    else:
        hi_ = clamp(z3.If(hi < 0, length + hi, hi), z3.IntVal(0), length)
    n = z3.If(hi_ - lo_ > 0, hi_ - lo_, z3.IntVal(0))
    return z3.simplify(lo_), z3.simplify(hi_), z3.simplify(n)


def l_slice(st, r, lo, hi, src=None):
    src = src or st
    lo_, hi_, n = slice_bounds(l_len(src, r), lo, hi)
    lo_ = named(st, lo_, "lo")
    n = named(st, n, "len")
    j = bvar("j")
    el = l_el(src, r)
    return new_list(st, n, mk_list_array(st, j, n, z3.Select(el, lo_ + j)))


def l_concat(st, a, b, sa=None, sb=None):
    sa, sb = sa or st, sb or st
    j = bvar("j")
    la = l_len(sa, a)
    ea, eb = l_el(sa, a), l_el(sb, b)
    n = la + l_len(sb, b)
    # alternative trigger on the left operand's element: an index known for `a` is an index of the result
    return new_list(st, n, mk_list_array(st, j, n, z3.If(j < la, z3.Select(ea, j), z3.Select(eb, j - la)),
                                         pats=[z3.Select(ea, j)]))


def l_append(run, st, r, v, line):
    n = l_len(st, r)
    write_list(run, st, r, n + 1, z3.Store(l_el(st, r), n, v), line)


def l_delete(run, st, r, i, line):
    j = bvar("j")
    el = l_el(st, r)
    n = l_len(st, r) - 1
    write_list(run, st, r, n,
               mk_list_array(st, j, n, z3.If(j < i, z3.Select(el, j), z3.Select(el, j + 1))), line)


def l_insert(run, st, r, i, v, line):
    j = bvar("j")
    el = l_el(st, r)
    n = l_len(st, r)
    i = clamp(z3.If(i < 0, n + i, i), z3.IntVal(0), n)
    write_list(run, st, r, n + 1,
               mk_list_array(st, j, n + 1,
                             z3.If(j < i, z3.Select(el, j), z3.If(j == i, v, z3.Select(el, j - 1)))), line)


def l_contains(st, r, v, eqf):
    j = bvar("j")
    return z3.Exists([j], z3.And(0 <= j, j < l_len(st, r), eqf(l_get(st, r, j), v)))


def l_distinct(st, r):
    i, j = bvar("i"), bvar("j")
    n = l_len(st, r)
    return z3.ForAll([i, j], z3.Implies(z3.And(0 <= i, i < j, j < n), l_get(st, r, i) != l_get(st, r, j)))


# ------------------------------------------------------------------ sets / dicts
def s_mem(st, r):
    return z3.Select(st.H("smem"), r)


def new_set(st, mem):
    r = alloc_ref(st)
    st.heap["smem"] = named(st, z3.Store(st.H("smem"), r, mem), "h_smem")
    return r


def write_set(run, st, r, mem, line):
    check_frame(run, st, ["set"], r, line)
    st.heap["smem"] = named(st, z3.Store(st.H("smem"), r, mem), "h_smem")


EMPTY_MEM = z3.K(V, z3.BoolVal(False))


def mem_of_list(st, r, into=None):
    x, j = bvarV("x"), bvar("j")
    return mk_array(into or st, x, z3.Exists([j], z3.And(0 <= j, j < l_len(st, r), l_get(st, r, j) == x)))


def d_has(st, r):
    return z3.Select(st.H("dhas"), r)


def d_val(st, r):
    return z3.Select(st.H("dval"), r)


def new_dict(st, has, val):
    r = alloc_ref(st)
    st.heap["dhas"] = named(st, z3.Store(st.H("dhas"), r, has), "h_dhas")
    st.heap["dval"] = named(st, z3.Store(st.H("dval"), r, val), "h_dval")
    return r


def write_dict(run, st, r, has, val, line):
    check_frame(run, st, ["dict"], r, line)
    st.heap["dhas"] = named(st, z3.Store(st.H("dhas"), r, named(st, has, "has")), "h_dhas")
    st.heap["dval"] = named(st, z3.Store(st.H("dval"), r, named(st, val, "val")), "h_dval")


# ------------------------------------------------------------------ fields
def f_get(st, name, r):
    return z3.Select(st.field(name), r)


def f_set(run, st, name, r, v, line):
    check_frame(run, st, ["f_" + name], r, line)
    st.heap["f_" + name] = named(st, z3.Store(st.field(name), r, v), "h_f_" + name)
