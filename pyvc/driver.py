"""Per-property driver: obligations from /repo's current tree -> solvers -> refuter -> evidence -> exit code.

exit 0 property held on everything explored (possibly with KNOWN-FINDING lines)
exit 1 VIOLATION (an obligation generated from the current source is not discharged)
exit 2 undecided (out-of-subset code, contract target missing)
exit 3 checker crash
"""
import importlib
import json
import os
import sys
import time
import traceback

VERIF = os.path.dirname(os.path.dirname(os.path.abspath(__file__)))
REPO = os.environ.get("TEAAL_REPO", "/repo")
if REPO != "/repo":
    sys.path.insert(0, REPO)
sys.path.insert(0, VERIF)

from pyvc.state import Universe, OutOfSubset, Obligation   # noqa: E402
from pyvc.execs import Exec                            # noqa: E402
from pyvc import solve, extract, native                # noqa: E402


class Extra:
    """a non-SMT obligation (structural / finite case analysis / bounded run-time check)"""

    def __init__(self, name, ok, detail="", backend="structural", kind="structural", seconds=0.0, witness=None):
        self.name, self.ok, self.detail, self.backend, self.kind = name, ok, detail, backend, kind
        self.seconds = seconds
        self.witness = witness     # concrete failing input (already replayed on the real code), if any


def load_known():
    p = os.path.join(VERIF, "known_findings.json")
    if not os.path.exists(p):
        return []
    return json.load(open(p)).get("findings", [])


def load_baseline():
    p = os.path.join(VERIF, "baseline.json")
    return json.load(open(p)) if os.path.exists(p) else {}


def _sidecar_digest(sidecars):
    import hashlib
    import inspect
    h = hashlib.sha256()
    for m in sidecars:
        try:
            h.update(inspect.getsource(m).encode())
        except OSError:
            h.update(m.__name__.encode())
    return h.hexdigest()[:12]


def run(prop, tier="quick", seed=0, write_baseline=False):
    t0 = time.time()
    mod = importlib.import_module("props." + prop)
    uni = Universe()
    sidecars = [importlib.import_module(m) for m in mod.SIDECARS]
    sdig = _sidecar_digest(sidecars)
    baseline = load_baseline().get(prop, {})
    for m in sidecars:
        uni.load_sidecar(m)
    undecided = []
    obls = []
    presolved = []
    functions = []
    targets = mod.targets(uni, tier) if hasattr(mod, "targets") else mod.TARGETS
    for key in targets:
        con = uni.contracts[key]
        try:
            ex = Exec(uni, key, con)
            got = ex.verify()
            for a_ in getattr(ex, "abstracted", []):
                if a_ not in uni.assumptions:
                    uni.assumptions.append(a_)          # abstracted loops / statements, listed mechanically
            if not [o for o in got if not o.kind.startswith("cover")]:
                undecided.append("%s: zero obligations generated" % key)
            obls += got
            functions.append({"function": key, "module": con.get("module") or uni.modules.get(key.rpartition(".")[0]),
                              "source_hash": extract.src_hash(ex.fn), "obligations": len(got)})
        except (OutOfSubset, IndexError, KeyError, AttributeError, TypeError, ValueError, AssertionError) as e:
            if not isinstance(e, OutOfSubset):
                # the engine met a construct it does not model (e.g. a builtin called with an arity the sidecar's code
                # never used): treated exactly like out-of-subset code, never as a verdict
                e = OutOfSubset("engine cannot model this code (%s: %s)" % (type(e).__name__, e))
            # the code (or the sidecar w.r.t. changed code) left the subset: not a verdict by itself.
            # Ask the refuter: a failing input on the real function is a violation; otherwise undecided.
            wit = None
            if hasattr(mod, "refute"):
                class _Ob:          # noqa
                    func = key
                    name = key + "/out-of-subset"
                    detail = str(e)
                try:
                    wit = mod.refute(uni, _Ob, os.path.join(VERIF, "replay", prop))
                except Exception:      # noqa
                    wit = None
            fw = _undeclared_field_write(uni, key, con, str(e)) if not wit else None
            if fw:
                # the function now writes a field its contract neither declares nor allows: a frame obligation that
                # needs no solver
                ob = Obligation("frame/%s/write[%s]/field-outside-the-declared-frame" % (key, fw[1][:60]), [], None,
                                kind="vc", func=key)
                ob.status, ob.backend, ob.goal = "countermodel", "structural", "n/a"
                ob.detail = ("the contract of %s declares modifies=%r, but the function writes through the undeclared field "
                             ".%s at line %s: %s" % (key, con.get("modifies"), fw[0], fw[2], fw[1]))
                ob.witness = None
                obls.append(ob)
                presolved.append(ob)
            elif wit:
                ob = Obligation(key + "/contract-not-applicable-to-changed-code", [], None, kind="vc", func=key)
                ob.status, ob.backend, ob.detail, ob.goal = "unknown", "native-refuter", "out of subset: %s" % e, "n/a"
                ob.witness = wit
                obls.append(ob)
                presolved.append(ob)
            else:
                undecided.append("%s: out of subset: %s" % (key, e))
        except extract.Missing as e:
            undecided.append("%s: contract target missing: %s" % (key, e))
    solve.discharge([o for o in obls if o not in presolved])
    extras = []
    if hasattr(mod, "extra"):
        try:
            extras = list(mod.extra(uni, tier, seed))
        except extract.Missing as e:
            undecided.append("extra checks: contract target missing: %s" % (e,))
    if uni.bases:
        from pyvc import structural as _st
        try:
            okh, det, nchk, hnotes = _st.class_hierarchy(uni)
            extras.append(Extra("structural/every base declared in the sidecars (BASES) is an ancestor in the repository; "
                                "hierarchies declared closed have no undeclared descendant (%d classes)" % nchk, okh, det))
            for root, subs in sorted(hnotes.items()):
                a = ("values typed as %s are assumed to be instances of the subclasses the sidecars declare; repository "
                     "subclasses not declared (outside what these contracts construct or inspect): %s"
                     % (root, ", ".join(sorted(set(subs)))))
                if a not in uni.assumptions:
                    uni.assumptions.append(a)
        except extract.Missing as e:
            undecided.append("class hierarchy: %s" % (e,))
    bounded = None
    if hasattr(mod, "bounded"):
        try:
            bounded = mod.bounded(uni, tier, seed)     # dict(evaluations, distinct_nontrivial, rule, samples, failures=[...])
        except Exception as e:      # noqa
            if type(e).__name__ != "HarnessInapplicable":
                raise
            # the harness drives a private function of the repository with stub collaborators; changed code that reads
            # state the stubs do not have cannot be judged by it (not a violation, not a pass)
            undecided.append("bounded companion: %s" % (e,))

    # ---------------------------------------------------------------- verdicts
    failed = []
    vacuous = []
    dead_paths = {}
    for ob in obls:
        if ob.kind == "cover":
            if ob.status == "discharged":
                vacuous.append(ob)
            continue
        if ob.kind == "cover-path":
            d = dead_paths.setdefault(getattr(ob, "base", ob.name), [0, 0])
            d[0] += 1
            if ob.status == "discharged":
                d[1] += 1
            continue
        if ob.status != "discharged":
            failed.append(ob)
    for fn_, (tot, dead) in dead_paths.items():
        if tot and dead == tot:
            ob = Obligation(fn_ + "/all-paths-infeasible", [], None, kind="cover", func=fn_)
            ob.status = "discharged"
            vacuous.append(ob)
    failed_extras = [e for e in extras if not e.ok]
    known = [k for k in load_known() if k.get("property") == prop and k.get("status", "open") == "open"]
    violations = []
    known_lines = []
    replay_dir = os.path.join(VERIF, "replay", prop)
    if os.path.isdir(replay_dir):
        for fn_ in os.listdir(replay_dir):          # replay files of earlier runs are not this run's
            if fn_.endswith(".json"):
                os.remove(os.path.join(replay_dir, fn_))

    def is_known(name, text):
        for k in known:
            if k.get("obligation") and (k["obligation"] == name or name.startswith(k["obligation"])):
                return k
            if k.get("match") and k["match"] in text:
                return k
        return None

    refute = getattr(mod, "refute", None)
    wit_cache = {}
    seen_base = {}
    for ob in failed:
        base = getattr(ob, "base", ob.name)
        if base in seen_base:
            seen_base[base].append(ob.name)      # other paths of an obligation already reported
            continue
        wit = getattr(ob, "witness", None)
        if refute is not None and wit is None:
            if ob.func in wit_cache:
                wit = wit_cache[ob.func]
            else:
                try:
                    wit = refute(uni, ob, replay_dir)
                except Exception:      # noqa
                    wit = None
                wit_cache[ob.func] = wit
        seen_base[base] = []
        ob.other_paths = seen_base[base]
        fp = next((f["source_hash"] + ":" + sdig for f in functions if f["function"] == ob.func), None)
        if wit is None and ob.status == "unknown" and fp is not None and baseline.get(ob.func) == fp:
            # the verification condition is the one that was discharged on the clean tree (same function source, same
            # sidecars): a solver that does not decide it now is instability, never a violation
            undecided.append("%s: not decided by any solver on UNCHANGED source and contracts (discharged at baseline %s)"
                             % (ob.name, fp))
            continue
        k = is_known(ob.name, ob.detail or "")
        if k is not None:
            known_lines.append("KNOWN-FINDING: property=%s %s" % (prop, k["what"]))
            continue
        violations.append(("obligation", ob, wit))
    for e in failed_extras:
        if e.witness is None and hasattr(mod, "refute_extra"):
            try:
                e.witness = mod.refute_extra(uni, e)
            except Exception:      # noqa
                pass
        k = is_known(e.name, e.detail or "")
        if k is not None:
            known_lines.append("KNOWN-FINDING: property=%s %s" % (prop, k["what"]))
            continue
        violations.append(("extra", e, e.witness))
    if bounded:
        for f in bounded.get("failures", []):
            k = is_known(f.get("name", ""), f.get("detail", ""))
            if k is not None:
                known_lines.append("KNOWN-FINDING: property=%s %s" % (prop, k["what"]))
                continue
            violations.append(("bounded", f, f.get("witness")))

    # ---------------------------------------------------------------- evidence
    n_smt = len([o for o in obls if not o.kind.startswith("cover")])
    n_ok = len([o for o in obls if not o.kind.startswith("cover") and o.status == "discharged"])
    n_extra_proof = len([e for e in extras if e.kind != "bounded"])
    n_extra_ok = len([e for e in extras if e.kind != "bounded" and e.ok])
    backends = {}
    for o in obls:
        if not o.kind.startswith("cover") and o.status == "discharged":
            backends[o.backend] = backends.get(o.backend, 0) + 1
    for e in extras:
        if e.ok and e.kind != "bounded":
            backends[e.backend] = backends.get(e.backend, 0) + 1
    samples = []
    for o in obls[:400]:
        if o.kind in ("post", "inv", "raises") and len(samples) < 6:
            samples.append({"obligation": o.name, "kind": o.kind, "status": o.status, "backend": o.backend,
                            "goal": str(o.goal)[:400], "hypotheses": len(o.hyps)})
    for e in extras[:3]:
        samples.append({"obligation": e.name, "kind": e.kind, "status": "discharged" if e.ok else "failed",
                        "backend": e.backend, "detail": e.detail[:300]})
    level = getattr(mod, "LEVEL", "proof")
    coverage = {
        "obligations": n_smt + n_extra_proof,
        "discharged": n_ok + n_extra_ok,
        "checker_cmd": "bin/check %s --tier %s" % (prop, tier),
        "trusted_base": list(getattr(mod, "TRUSTED", [])) + [
            "CPython ast module (extraction)", "pyvc encoding of the Python subset (DESIGN 2.2)",
            "z3 5.1.0 / cvc5 1.0.3", "declared type annotations and sidecar field kinds hold at run time",
            "termination is not proved", "implicit IndexError/KeyError/AttributeError are not checked unless a "
            "contract enables safety"],
        "functions_under_contract": functions,
        "backends": backends,
        "solver_seconds": round(sum(o.seconds for o in obls), 2),
        "cover_checks": len([o for o in obls if o.kind.startswith("cover")]),
        "return_paths": {k: {"explored": v[0], "infeasible": v[1]} for k, v in dead_paths.items()},
        "vacuous_contracts": [o.name for o in vacuous],
        "undischarged": [{"obligation": o.name, "status": o.status, "detail": (o.detail or "")[:300]} for o in failed],
        "failed_structural": [{"obligation": e.name, "detail": e.detail[:300]} for e in failed_extras],
        "undecided": undecided,
        "samples": samples,
        "explanation": getattr(mod, "EXPLANATION", ""),
    }
    if bounded:
        coverage["bounded_standin"] = {k: v for k, v in bounded.items() if k != "failures"}
        coverage["bounded_standin"]["failures"] = len(bounded.get("failures", []))
        coverage["evaluations"] = bounded.get("evaluations", 0)
        coverage["distinct_nontrivial"] = bounded.get("distinct_nontrivial", 0)
        coverage["rule"] = bounded.get("rule", "")
        if level == "exploration":
            coverage["samples"] = (bounded.get("samples") or [])[:5] + samples[:3]
        coverage["exhaustive"] = bool(bounded.get("exhaustive", False))
    if hasattr(mod, "coverage_extra"):
        coverage.update(mod.coverage_extra())
    # contracts relied on at call sites: verified here, verified under another property, or assumed
    used = getattr(uni, "used_contracts", {})
    verified_here = {f["function"] for f in functions}
    assumed_calls, naming = [], []
    for key in sorted(used):
        con = uni.contracts.get(key, {})
        callers = ", ".join(sorted(used[key]))
        if con.get("naming"):
            naming.append("naming (assumed at call sites of %s): the result of the deterministic function %s is named by "
                          "uninterpreted functions of its arguments: %s" % (callers, key, "; ".join(
                              (e[1] if isinstance(e, tuple) else e) for e in con["naming"])))
        if key in verified_here and not con.get("assumed_body"):
            continue
        kind_ = ("observer (heap-independent function of its arguments)" if con.get("observer") else
                 "assumed contract" if (con.get("assumed") or con.get("assumed_body")) else
                 "contract not verified in THIS run (an obligation of another property's run if listed there, else assumed)")
        ens = "; ".join((e[1] if isinstance(e, tuple) else e) for e in con.get("ensures", []))[:400]
        assumed_calls.append("%s: %s, used by %s%s" % (kind_, key, callers, (" — ensures: " + ens) if ens else ""))
    coverage["contracts_assumed_at_call_sites"] = assumed_calls
    ev = {
        "property_id": prop, "tier": tier, "seed": seed, "level": level, "coverage": coverage,
        "assumptions": list(uni.assumptions) + list(getattr(mod, "ASSUMPTIONS", [])) + naming + assumed_calls,
        "wall_s": round(time.time() - t0, 2),
        "violations": len(violations),
    }
    os.makedirs(os.path.join(VERIF, "evidence"), exist_ok=True)
    with open(os.path.join(VERIF, "evidence", prop + ".json"), "w") as f:
        json.dump(ev, f, indent=1, default=str)

    # ---------------------------------------------------------------- report
    for line in sorted(set(known_lines)):
        print(line)
    print("%s tier=%s: %d/%d obligations discharged (%s), %d structural/finite, wall %.1fs" % (
        prop, tier, n_ok, n_smt, ", ".join("%s:%d" % kv for kv in sorted(backends.items())), n_extra_proof,
        time.time() - t0))
    if bounded:
        print("%s bounded stand-in: %d evaluations, %d distinct non-trivial, %d failures" % (
            prop, bounded.get("evaluations", 0), bounded.get("distinct_nontrivial", 0),
            len(bounded.get("failures", []))))
    if vacuous:
        print("CHECKER ERROR: vacuous contract(s): " + ", ".join(o.name for o in vacuous))
        if not violations:
            return 3
        # on changed code a contract can become vacuous because an invariant no longer fits the loop it is attached to;
        # the failed obligations below say so and are reported (a vacuous contract alone is a checker error)
    if bounded is not None and bounded.get("evaluations", 0) == 0 and not violations:
        print("CHECKER ERROR: the bounded stand-in evaluated nothing (corpus not found?)")
        return 3
    if violations:
        os.makedirs(replay_dir, exist_ok=True)
        written = set()
        for kind, item, wit in violations[:12]:
            name = item.name if kind != "bounded" else item.get("name", "bounded")
            fname = name.replace("/", "_").replace("[", "_").replace("]", "").replace("~", "_")[:120] + ".json"
            path = os.path.join(replay_dir, fname)
            k = 1
            while path in written:          # several failing inputs of one bounded obligation: one file each
                k += 1
                path = os.path.join(replay_dir, fname[:-5] + ".%d.json" % k)
            written.add(path)
            rec = {"property": prop, "failed_obligation": name, "kind": kind}
            if kind == "obligation":
                rec.update({"other_failing_paths": getattr(item, "other_paths", []),
                            "status": item.status, "backend": item.backend, "verifier_output": item.detail,
                            "goal": str(item.goal)[:2000], "function": item.func, "line": item.line})
            elif kind == "extra":
                rec.update({"detail": item.detail, "backend": item.backend})
            else:
                rec.update(item)
            if wit:
                rec["failing_input"] = wit
            with open(path, "w") as f:
                json.dump(rec, f, indent=1, default=str)
            tail = "" if wit else " no-failing-input-found"
            print("VIOLATION property=%s replay=%s obligation=%s%s" % (prop, path, name, tail))
        if len(violations) > 12:
            print("(%d further failures not listed)" % (len(violations) - 12))
        return 1
    if undecided:
        for u in undecided:
            print("UNDECIDED: " + u)
        return 2
    if write_baseline and not vacuous:
        allb = load_baseline()
        allb[prop] = {f["function"]: f["source_hash"] + ":" + sdig for f in functions}
        with open(os.path.join(VERIF, "baseline.json"), "w") as f:
            json.dump(allb, f, indent=1, sort_keys=True)
    return 0


_MUTATORS = {"append", "extend", "insert", "add", "update", "pop", "remove", "clear", "setdefault", "popitem", "discard", "sort"}


def _undeclared_field_write(uni, key, con, msg):
    """(field, statement text, line) if `msg` complains about an undeclared field that the function writes through
    while its contract has an explicit frame that does not mention it"""
    import ast as _ast
    import re as _re
    m = _re.search(r"field (\w+)\.(\w+) not declared in sidecar", msg)
    if not m or "modifies" not in con:
        return None
    field = m.group(2)
    if any(("." + field) in t for t in con.get("modifies") or []):
        return None
    try:
        fn = Exec(uni, key, con).fn
    except Exception:      # noqa
        return None

    def through(e):
        while isinstance(e, (_ast.Subscript, _ast.Attribute)):
            if isinstance(e, _ast.Attribute) and e.attr == field:
                return True
            e = e.value
        return False
    for n in _ast.walk(fn):
        tgts = []
        if isinstance(n, _ast.Assign):
            tgts = n.targets
        elif isinstance(n, (_ast.AugAssign, _ast.AnnAssign)):
            tgts = [n.target]
        elif isinstance(n, _ast.Delete):
            tgts = n.targets
        elif isinstance(n, _ast.Call) and isinstance(n.func, _ast.Attribute) and n.func.attr in _MUTATORS and through(n.func.value):
            return field, _ast.unparse(n), n.lineno
        for t in tgts:
            if through(t):
                return field, _ast.unparse(n), n.lineno
    return None


def main(argv=None):
    import argparse
    ap = argparse.ArgumentParser()
    ap.add_argument("prop")
    ap.add_argument("--tier", default=os.environ.get("VERIF_TIER", "quick"))
    ap.add_argument("--replay")
    ap.add_argument("--write-baseline", action="store_true",
                    help="after a clean run on the clean tree: record function-source/sidecar fingerprints of what was discharged")
    a = ap.parse_args(argv)
    seed = int(os.environ.get("VERIF_SEED", "0") or 0)
    if a.replay:
        rec = json.load(open(a.replay))
        print(json.dumps(rec, indent=1)[:4000])
        mod = importlib.import_module("props." + a.prop)
        if hasattr(mod, "replay"):
            return mod.replay(rec)
        return 0
    try:
        return run(a.prop, a.tier, seed, a.write_baseline)
    except SystemExit:
        raise
    except Exception:      # noqa
        traceback.print_exc()
        return 3


if __name__ == "__main__":
    sys.exit(main())
